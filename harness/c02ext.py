"""C02, two further streams (private to C02):

  enum-mixin  Enum fields over enum classes WITH A MIX-IN TYPE (class Tone(str, enum.Enum), IntEnum, StrEnum): the
              deterministic lattice  class x declared subset x candidate (every member object of every class, every
              name, wrong-case name, raw member value, a few other values) x context (constructor, assignment, as
              element of Array / Deque / Tuple / Set, as Map value / key, under AnyOf[Integer, .]).  The documented
              rule mx_doc and the code-shaped model mx_set (Fields/EnumMixin.v) are evaluated in Coq on what the
              implementation did.
  classfield  fields over ARBITRARY classes (Field[Foo], Array[Foo], Map[String, Foo], AnyOf[Integer, Foo], ...):
              the lattice  scenario (classes out of one factory = same module/qualname, redefinition, subclass,
              unrelated class, classes whose metaclass overrides __eq__/__hash__) x HISTORY of earlier declarations
              x declared class x form x value (an instance of every class of the scenario, plain values).  Fresh
              class objects per history.  cf_doc / cf_set (Fields/ClassField.v, registry key generated from the
              current source) are evaluated in Coq.
"""
import collections
import enum
import typing

from harness import core
from harness import coqemit as E


# ================================================================================ enum mix-in classes

class Tone(str, enum.Enum):          # value of HIGH is the NAME of LOW
    LOW = "low"
    HIGH = "LOW"
    MID = "mid"


class Mood(str, enum.Enum):
    CALM = "calm"
    WILD = "wild"
    FLAT = "flat"


class Shade(str, enum.Enum):         # another class; Shade.LOW == Tone.LOW == "low"
    LOW = "low"
    DARK = "dark"


class Level(enum.IntEnum):
    A = 1
    B = 2
    C = 3


class Rank(int, enum.Enum):
    FIRST = 1
    SECOND = 2


class Plain(enum.Enum):              # control: no mix-in
    X = "x"
    Y = 2
    CALM = "calm"


MIXIN_ENUMS = collections.OrderedDict((c.__name__, c) for c in (Tone, Mood, Shade, Level, Rank, Plain))
if hasattr(enum, "StrEnum"):
    class Key(enum.StrEnum):
        UP = "up"
        DOWN = "down"
    MIXIN_ENUMS["Key"] = Key


def mix_of(cls):
    if issubclass(cls, str):
        return "MxStr"
    if issubclass(cls, int):
        return "MxInt"
    return "MxNone"


CONTEXTS = ("bare", "assign", "array", "deque", "tuple", "set", "mapval", "mapkey", "anyof")


def _imports():
    import typedpy
    return typedpy


def enum_decl(cls, members):
    """The Enum field instance for a declared subset (all members -> Enum[cls])."""
    tp = _imports()
    if list(members) == [m.name for m in cls]:
        return tp.Enum[cls]
    return tp.Enum(values=[cls[n] for n in members])


def enum_decl_src(cname, members):
    cls = MIXIN_ENUMS[cname]
    if list(members) == [m.name for m in cls]:
        return "Enum[%s]" % cname
    return "Enum(values=[%s])" % ", ".join("%s.%s" % (cname, n) for n in members)


def wrap_field(ctx, inner):
    tp = _imports()
    if ctx in ("bare", "assign"):
        return inner
    if ctx == "array":
        return tp.Array[inner]
    if ctx == "deque":
        return tp.Deque[inner]
    if ctx == "tuple":
        return tp.Tuple(items=[inner])
    if ctx == "set":
        return tp.Set[inner]
    if ctx == "mapval":
        return tp.Map[tp.String, inner]
    if ctx == "mapkey":
        return tp.Map[inner, tp.Integer]
    if ctx == "anyof":
        return tp.AnyOf[tp.Integer, inner]
    if ctx == "oneof":
        return tp.OneOf[tp.String(maxLength=0), inner]
    if ctx == "optional":
        return tp.AnyOf[inner, tp.NoneField]
    raise ValueError(ctx)


def wrap_src(ctx, inner):
    return {"bare": "%s", "assign": "%s", "array": "Array[%s]", "deque": "Deque[%s]", "tuple": "Tuple(items=[%s])",
            "set": "Set[%s]", "mapval": "Map[String, %s]", "mapkey": "Map[%s, Integer]",
            "anyof": "AnyOf[Integer, %s]", "oneof": "OneOf[String(maxLength=0), %s]",
            "optional": "AnyOf[%s, NoneField]"}[ctx] % inner


def wrap_value(ctx, x):
    if ctx in ("bare", "assign", "anyof", "oneof", "optional"):
        return x
    if ctx == "array":
        return [x]
    if ctx == "deque":
        return collections.deque([x])
    if ctx == "tuple":
        return (x,)
    if ctx == "set":
        return {x}
    if ctx == "mapval":
        return {"k": x}
    if ctx == "mapkey":
        return {x: 1}
    raise ValueError(ctx)


def wrap_value_src(ctx, s):
    return {"array": "[%s]", "deque": "deque([%s])", "tuple": "(%s,)", "set": "{%s}", "mapval": "{'k': %s}",
            "mapkey": "{%s: 1}"}.get(ctx, "%s") % s


def unwrap(ctx, got):
    if ctx in ("bare", "assign", "anyof", "oneof", "optional"):
        return got
    if ctx in ("array", "deque", "tuple"):
        if len(got) != 1:
            raise LookupError("stored %d elements" % len(got))
        return got[0]
    if ctx == "set":
        if len(got) != 1:
            raise LookupError("stored %d elements" % len(got))
        return next(iter(got))
    if ctx == "mapval":
        return got["k"]
    if ctx == "mapkey":
        if len(got) != 1:
            raise LookupError("stored %d keys" % len(got))
        return next(iter(got.keys()))
    raise ValueError(ctx)


_CLASS_CACHE = {}


def holder(field, key, required=True):
    """A Structure class with the single field f (cached by key when key is not None)."""
    tp = _imports()
    if key is not None and key in _CLASS_CACHE:
        return _CLASS_CACHE[key]
    T = type(tp.Structure)("T", (tp.Structure,), {"f": field, "_required": ["f"] if required else []})
    if key is not None:
        _CLASS_CACHE[key] = T
    return T


def observe(T, ctx, x):
    """-> ("ok", stored element) | ("raise", class name) | ("skip", why)"""
    try:
        val = wrap_value(ctx, x)
    except TypeError:
        return ("skip", "unhashable")
    try:
        if ctx == "assign":
            inst = T()
            inst.f = val
        else:
            inst = T(f=val)
        got = inst.f
    except Exception as ex:  # noqa
        return ("raise", E.exn_name(ex))
    try:
        return ("ok", unwrap(ctx, got))
    except LookupError as ex:
        return ("raise", "StoredShape:%s" % ex)


# ---------------------------------------------------------------- candidates (JSON-able specs)

def cand_obj(spec):
    if spec[0] == "member":
        return MIXIN_ENUMS[spec[1]][spec[2]]
    from harness import fieldgen as G
    return G.unreify(tuple_deep(spec[1]))


def tuple_deep(r):
    if isinstance(r, list):
        return tuple(tuple_deep(x) for x in r)
    return r


def cand_src(spec):
    if spec[0] == "member":
        return "%s.%s" % (spec[1], spec[2])
    from harness import fieldgen as G
    return G.py_src(tuple_deep(spec[1]))


def all_candidates():
    out = []
    seen = set()

    def add(spec):
        k = repr(spec)
        if k not in seen:
            seen.add(k)
            out.append(spec)
    for cname, cls in MIXIN_ENUMS.items():
        for m in cls:
            add(("member", cname, m.name))
            add(("plain", ("str", m.name)))
            add(("plain", ("str", m.name.lower())))
            add(("plain", E.reify(m.value)))
    for v in (None, True, 0, 1.0, 2.0, "", [], (1,)):
        add(("plain", E.reify(v)))
    return out


def cand_kind(cls, declnames, x):
    """Coarse relation of the candidate to the declaration (for finding keys / distinct counting)."""
    decl = [cls[n] for n in declnames]
    if isinstance(x, enum.Enum):
        if type(x) is cls:
            if x.name in declnames:
                return "member-declared"
            if isinstance(x, str) and str(x.value) in declnames:
                return "member-undeclared:value-names-declared"
            return "member-undeclared"
        try:
            hit = any(x == d for d in decl)
        except Exception:  # noqa
            hit = False
        if hit:
            return "member-other-class:value-equal"
        if isinstance(x, str) and str(x.value) in declnames:
            return "member-other-class:value-names-declared"
        return "member-other-class"
    if isinstance(x, str) and x in declnames:
        return "name"
    try:
        hit = any(x == d for d in decl)
    except Exception:  # noqa
        hit = False
    if hit:
        return "raw-value"
    return "other:" + type(x).__name__


# ---------------------------------------------------------------- emission

def emit_xval_obj(x):
    if isinstance(x, enum.Enum):
        return "(XMem %s %s %s %s)" % (E.pstr(type(x).__name__), mix_of(type(x)), E.pstr(x.name),
                                       E.pval(plain_reify(x.value)))
    return "(XPlain %s)" % E.pval(plain_reify(x))


def plain_reify(v):
    """Reify with enum members of mix-in classes inside containers flattened to their class/name (never needed at
    top level, where emit_xval_obj handles members)."""
    return E.reify(v)


def emit_ecls(cls):
    return "{| ec_name := %s; ec_mix := %s; ec_members := %s |}" % (
        E.pstr(cls.__name__), mix_of(cls), emit_members(cls, [m.name for m in cls]))


def emit_members(cls, names):
    return E.lst(["(%s, %s)" % (E.pstr(n), E.pval(E.reify(cls[n].value))) for n in names])


def emit_xobs(o):
    if o[0] == "ok":
        return "(Ok %s)" % emit_xval_obj(o[1])
    return "(@Raise xval %s)" % E.exn(o[1])


HEADER = """From Coq Require Import ZArith NArith String List Bool. Import ListNotations.
From TP Require Import Check.C02xchk.
Local Open Scope string_scope.
"""


def eval_stream(items, typ, fns, tag, prelude=""):
    """items: Gallina record literals.  Returns {fn: [indices]} or raises RuntimeError."""
    per = 400
    shards = []
    for s in range(0, len(items), per):
        body = "Definition cases : list %s := %s.\n" % (typ, E.lst(["\n " + i for i in items[s:s + per]]))
        for fn in fns:
            body += "Eval vm_compute in (indices_where %s cases 0).\n" % fn
        shards.append(body)
    res = core.eval_cases(shards, tag, HEADER + prelude)
    out = {fn: [] for fn in fns}
    for si, (rc, so, se) in enumerate(res):
        vals = core.parse_eval(so)
        if rc != 0 or len(vals) != len(fns):
            raise RuntimeError("case shard %d failed to evaluate: %s" % (si, (so + se)[-1500:]))
        for fn, v in zip(fns, vals):
            out[fn] += [si * per + i for i in core.parse_nat_list(v)]
    return out


# ---------------------------------------------------------------- the enum-mixin stream

def enum_cases(tier):
    cands = all_candidates()
    cases = []
    for cname, cls in MIXIN_ENUMS.items():
        names = [m.name for m in cls]
        subsets = [names, names[:1], names[1:], names[:-1]]
        if len(names) > 2:
            subsets.append([names[0], names[-1]])
        related = related_candidates(cname, cands)
        seen = set()
        for si, members in enumerate(subsets):
            if tuple(members) in seen or not members:
                continue
            seen.add(tuple(members))
            for ctx in CONTEXTS:
                if ctx == "bare" or tier != "quick":
                    pool = cands                      # every candidate of the lattice
                elif si in (0, 2):
                    pool = related                    # other contexts: what is related to / confusable with the class
                else:
                    continue
                for spec in pool:
                    cases.append({"stream": "enum-mixin", "cls": cname, "members": list(members), "ctx": ctx,
                                  "cand": spec})
    return cases


def related_candidates(cname, cands):
    """Candidates related to the class: its members, their names / wrong-case names / raw values, members of other
    classes with the same mix-in (== confusable), and the generic plain values."""
    cls = MIXIN_ENUMS[cname]
    own = set()
    for m in cls:
        own |= {repr(("plain", ("str", m.name))), repr(("plain", ("str", m.name.lower()))), repr(("plain", E.reify(m.value)))}
    generic = {repr(("plain", E.reify(v))) for v in (None, True, 0, 1.0, "", [])}
    out = []
    for spec in cands:
        if spec[0] == "member":
            if spec[1] == cname or mix_of(MIXIN_ENUMS[spec[1]]) == mix_of(cls):
                out.append(spec)
        elif repr(spec) in own or repr(spec) in generic:
            out.append(spec)
    return out


def run_enum_case(c):
    cls = MIXIN_ENUMS[c["cls"]]
    x = cand_obj(c["cand"])
    ctx = c["ctx"]
    if ctx == "anyof" and isinstance(x, int):
        return ("skip", "Integer option takes an int")
    key = ("enum", c["cls"], tuple(c["members"]), ctx)
    try:
        T = holder(wrap_field(ctx, enum_decl(cls, c["members"])), key, required=(ctx != "assign"))
    except Exception as ex:  # noqa
        return ("skip", "declaration raises %s" % E.exn_name(ex))
    return observe(T, ctx, x)


def enum_case_src(c):
    return ("import enum\nfrom collections import deque\nfrom typedpy import *\nfrom harness.c02ext import %s\n\n"
            "class T(Structure):\n    f = %s\n    _required = %s\n\n%s\nprint(repr(x.f))\n" % (
                ", ".join(MIXIN_ENUMS), wrap_src(c["ctx"], enum_decl_src(c["cls"], c["members"])),
                "[]" if c["ctx"] == "assign" else "['f']",
                ("x = T()\nx.f = %s" if c["ctx"] == "assign" else "x = T(f=%s)") % wrap_value_src(c["ctx"], cand_src(c["cand"]))))


def enum_prelude():
    """The lattice classes and their member lists, defined once per case file."""
    out = []
    for cname, cls in MIXIN_ENUMS.items():
        out.append("Definition E_%s : ecls := %s." % (cname, emit_ecls(cls)))
    return "\n".join(out) + "\n"


def emit_enum_case(c, o):
    cls = MIXIN_ENUMS[c["cls"]]
    return "{| xc_cls := E_%s; xc_decl := %s; xc_value := %s; xc_obs := %s |}" % (
        c["cls"], emit_members(cls, c["members"]), emit_xval_obj(cand_obj(c["cand"])), emit_xobs(o))


def enum_key(c, o, bare_fails):
    cls = MIXIN_ENUMS[c["cls"]]
    x = cand_obj(c["cand"])
    mk = {"MxStr": "str", "MxInt": "int", "MxNone": "plain"}[mix_of(cls)]
    key = "C02/enum-mixin/%s/%s/%s" % (mk, cand_kind(cls, c["members"], x), "accepted" if o[0] == "ok" else o[1])
    if c["ctx"] not in ("bare",) and not bare_fails:
        key += "@" + c["ctx"]
    return key


def run_enum_stream(rep, tier, model_ok):
    cases = enum_cases(tier)
    kept, obs = [], []
    for c in cases:
        o = run_enum_case(c)
        if o[0] == "skip":
            rep.stat("enum-mixin", "skipped:" + o[1])
            continue
        kept.append(c)
        obs.append(o)
        cls = MIXIN_ENUMS[c["cls"]]
        kind = cand_kind(cls, c["members"], cand_obj(c["cand"]))
        rep.count("enum-mixin", 1, (c["cls"], len(c["members"]), c["ctx"], kind, o[0] if o[0] == "ok" else o[1]))
        rep.stat("enum-mixin", "mixin:" + mix_of(cls))
        rep.stat("enum-mixin", "candidate:" + kind.split(":")[0])
        rep.stat("enum-mixin", "context:" + c["ctx"])
        rep.stat("enum-mixin", "outcome:" + (o[0] if o[0] == "ok" else o[1]))
    if kept:
        rep.sample({"stream": "enum-mixin", "declaration": wrap_src(kept[0]["ctx"], enum_decl_src(kept[0]["cls"], kept[0]["members"])),
                    "value": cand_src(kept[0]["cand"]), "observed": repr(obs[0])})
    if not model_ok:
        return
    try:
        r = eval_stream([emit_enum_case(c, o) for c, o in zip(kept, obs)], "xcase",
                        ("xspec_fail", "xmismatch", "xsafe"), "c02mix", enum_prelude())
    except RuntimeError as ex:
        rep.broken("correspondence:enum-mixin/coq-eval", str(ex))
        return
    s = rep.cov["streams"]["enum-mixin"]
    s["in_safe_domain_of_theorem"] = len(r["xsafe"])
    s["accepted"] = sum(1 for o in obs if o[0] == "ok")
    fails = set(r["xspec_fail"])
    bare_fail = set()
    for i in fails:
        c = kept[i]
        if c["ctx"] == "bare":
            bare_fail.add((c["cls"], tuple(c["members"]), repr(c["cand"])))
    for i in sorted(fails):
        c, o = kept[i], obs[i]
        key = enum_key(c, o, (c["cls"], tuple(c["members"]), repr(c["cand"])) in bare_fail)
        rep.finding(key, "documented rule for Enum fields and implementation disagree: %s given %s -> %s" % (
            wrap_src(c["ctx"], enum_decl_src(c["cls"], c["members"])), wrap_value_src(c["ctx"], cand_src(c["cand"])),
            (o[0], repr(o[1]))), dict(c, observed=[o[0], repr(o[1])], python=enum_case_src(c)))
    rep.obligation("spec-on-observed:enum-mixin", not fails, "%d cases, %d spec failures" % (len(kept), len(fails)))
    mism = [i for i in r["xmismatch"] if i not in fails]
    rep.obligation("correspondence:enum-mixin", not mism,
                   "%d cases, %d mismatches (outside reported spec failures)" % (len(kept), len(mism)))
    # the model must also predict the cases on which code and documentation differ (they are its refutation witnesses)
    mism_all = r["xmismatch"]
    if mism_all and not any(not v["no_input"] for v in rep.violations):
        i = mism_all[0]
        rep.broken("correspondence:enum-mixin",
                   "model (Fields/EnumMixin.v mx_set) and typedpy differ on %d cases" % len(mism_all),
                   dict(kept[i], observed=[obs[i][0], repr(obs[i][1])], python=enum_case_src(kept[i])))


def replay_enum(obj):
    o = run_enum_case(obj)
    print("declaration:", wrap_src(obj["ctx"], enum_decl_src(obj["cls"], obj["members"])))
    print("value      :", wrap_value_src(obj["ctx"], cand_src(obj["cand"])), "(%s)" % obj["ctx"])
    print("observed   :", (o[0], repr(o[1])))
    if o[0] == "skip":
        return 2
    try:
        r = eval_stream([emit_enum_case(obj, o)], "xcase", ("xspec_fail", "xmismatch", "xsafe"), "c02mixreplay", enum_prelude())
    except RuntimeError as ex:
        print(ex)
        return 2
    print("documented rule (accept exactly a declared member object or the name of one; store the member; reject "
          "with TypeError/ValueError):", "VIOLATED" if r["xspec_fail"] else "satisfied")
    return 1 if r["xspec_fail"] else 0


# ================================================================================ arbitrary classes

class MetaEq(type):
    """A metaclass that makes all its classes OF ONE GROUP compare (and hash) equal (a group per scenario instance, so
    that the history of one group of cases does not leak into the next through the process-wide registry)."""
    def __eq__(cls, other):
        return isinstance(other, MetaEq) and getattr(other, "_grp", None) == getattr(cls, "_grp", None)

    def __hash__(cls):
        return hash(("MetaEq", getattr(cls, "_grp", None)))


_GRP = [0]


def _factory(n):
    class Vector:
        def __init__(self):
            self.dim = n

        def __repr__(self):
            return "Vector%d()" % n
    return Vector


class _OuterA:
    class Item:
        pass


class _OuterB:
    class Item:
        pass


def build_scenario(name):
    """Fresh class objects.  -> ordered dict key -> class."""
    u = collections.OrderedDict()
    if name == "factory-twins":
        u["A"] = _factory(2)
        u["B"] = _factory(3)
        u["SubA"] = type("SubVector", (u["A"],), {})
        u["Other"] = type("Other", (), {})
    elif name == "redefinition":
        u["A"] = type("Foo", (), {"__module__": "app.models"})
        u["B"] = type("Foo", (), {"__module__": "app.models"})
        u["Other"] = type("Foo", (), {"__module__": "app.views"})
    elif name == "same-name":
        u["A"] = type("Item", (), {"__qualname__": "OuterA.Item"})
        u["B"] = type("Item", (), {"__qualname__": "OuterB.Item"})
    elif name == "metaclass-eq":
        _GRP[0] += 1
        u["A"] = MetaEq("M1", (), {"_grp": _GRP[0]})
        u["B"] = MetaEq("M2", (), {"_grp": _GRP[0]})
    else:
        raise ValueError(name)
    return u


SCENARIOS = ("factory-twins", "redefinition", "same-name", "metaclass-eq")
FORMS = ("field", "array", "deque", "tuple", "set", "mapval", "anyof", "oneof", "optional", "assign")
PLAIN_VALUES = [("none",), ("int", 3), ("str", "a"), ("other", "object", "")]


def class_form(form, k):
    tp = _imports()
    inner = tp.Field[k]
    if form == "field":
        return inner
    if form == "assign":
        return inner
    if form == "array":
        return tp.Array[k]
    if form == "deque":
        return tp.Deque[k]
    if form == "set":
        return tp.Set[k]
    if form == "tuple":
        return tp.Tuple[k]
    if form == "mapval":
        return tp.Map[tp.String, k]
    if form == "anyof":
        return tp.AnyOf[tp.Integer, k]
    if form == "oneof":
        return tp.OneOf[tp.String, k]
    if form == "optional":
        return tp.Field[typing.Optional[k]]
    raise ValueError(form)


FORM_SRC = {"field": "Field[%s]", "assign": "Field[%s]", "array": "Array[%s]", "deque": "Deque[%s]", "set": "Set[%s]",
            "tuple": "Tuple[%s]", "mapval": "Map[String, %s]", "anyof": "AnyOf[Integer, %s]",
            "oneof": "OneOf[String, %s]", "optional": "Field[typing.Optional[%s]]"}
FORM_CTX = {"field": "bare", "assign": "assign", "array": "array", "deque": "deque", "set": "set", "tuple": "tuple",
            "mapval": "mapval", "anyof": "anyof", "oneof": "oneof", "optional": "optional"}


def class_cases(tier):
    cases = []
    for sc in SCENARIOS:
        keys = list(build_scenario(sc))
        hists = [[]] + [[k] for k in keys]
        if "B" in keys:
            hists += [["A", "B"], ["B", "A"]]
        for hist in hists:
            for c in keys:
                if c == "Other":
                    continue
                for form in FORMS:
                    for vk in keys:
                        cases.append({"stream": "classfield", "scenario": sc, "hist": hist, "cls": c, "form": form,
                                      "value": ["inst", vk]})
                    for pv in PLAIN_VALUES:
                        if form in ("anyof",) and pv[0] == "int":
                            continue
                        if form == "oneof" and pv[0] == "str":
                            continue
                        if form == "optional" and pv[0] == "none":
                            continue
                        cases.append({"stream": "classfield", "scenario": sc, "hist": hist, "cls": c, "form": form,
                                      "value": ["plain", list(pv)]})
    return cases


def run_class_group(group):
    """group: cases sharing (scenario, hist, cls, form).  Fresh classes; the history is declared (each earlier class in
    an Array[.] field of its own Structure), then the declaration under test.  -> [(observation, universe)]"""
    c0 = group[0]
    tp = _imports()
    u = build_scenario(c0["scenario"])
    for h in c0["hist"]:
        type(tp.Structure)("H", (tp.Structure,), {"h": tp.Array[u[h]], "_required": []})
    ctx = FORM_CTX[c0["form"]]
    try:
        T = holder(class_form(c0["form"], u[c0["cls"]]), None, required=(ctx != "assign"))
    except Exception as ex:  # noqa
        return [(("skip", "declaration raises %s" % E.exn_name(ex)), u, None) for _ in group]
    out = []
    for c in group:
        if c["value"][0] == "inst":
            try:
                x = u[c["value"][1]]()
            except Exception as ex:  # noqa
                out.append((("skip", "instance: %s" % ex), u, None))
                continue
        else:
            from harness import fieldgen as G
            x = G.unreify(tuple_deep(c["value"][1]))
        out.append((observe(T, ctx, x), u, x))
    return out


def class_prelude():
    out = []
    for sc in SCENARIOS:
        u = build_scenario(sc)
        for key in u:
            out.append("Definition K_%s_%s : pycls := %s." % (sc.replace("-", "_"), key, emit_pycls_lit(u, key)))
    return "\n".join(out) + "\n"


def emit_pycls(u, key, sc=None):
    if sc is not None:
        return "K_%s_%s" % (sc.replace("-", "_"), key)
    return emit_pycls_lit(u, key)


def emit_pycls_lit(u, key):
    k = u[key]
    ids = {kk: i + 1 for i, kk in enumerate(u)}
    mro = [ids[kk] for kk, other in u.items() if other is not k and any(other is m for m in k.__mro__)]
    return ("{| k_id := %s; k_module := %s; k_qualname := %s; k_name := %s; k_mro := %s; k_meta_eq := %s |}" % (
        E.nlit(ids[key]), E.pstr(str(k.__module__)), E.pstr(k.__qualname__), E.pstr(k.__name__),
        E.lst([E.nlit(i) for i in mro]), "(Some 7%N)" if isinstance(k, MetaEq) else "None"))


def emit_cval(u, x, given=None, sc=None):
    for key, k in u.items():
        if type(x) is k:
            return "(CInst %s %s)" % (emit_pycls(u, key, sc), "0%N" if (given is None or x is given) else "1%N")
    return "(CPlain %s)" % E.pval(E.reify(x))


def emit_class_case(c, o, u, x):
    sc = c["scenario"]
    obs = "(Ok %s)" % emit_cval(u, o[1], x, sc) if o[0] == "ok" else "(@Raise cval %s)" % E.exn(o[1])
    return "{| cc_hist := %s; cc_cls := %s; cc_value := %s; cc_obs := %s |}" % (
        E.lst([emit_pycls(u, h, sc) for h in c["hist"]]), emit_pycls(u, c["cls"], sc), emit_cval(u, x, None, sc), obs)


def class_relation(u, c, x):
    k = u[c["cls"]]
    if type(x) is k:
        return "own-instance"
    if isinstance(x, k):
        return "subclass-instance"
    for key, other in u.items():
        if type(x) is other:
            same = (other.__module__, other.__qualname__) == (k.__module__, k.__qualname__)
            return "twin-instance" if same else ("superclass-instance" if issubclass(k, other) else "other-instance")
    return "plain:" + type(x).__name__


def hist_relation(u, c):
    k = u[c["cls"]]
    rels = []
    for h in c["hist"]:
        o = u[h]
        if o is k:
            rels.append("self")
        elif (o.__module__, o.__qualname__) == (k.__module__, k.__qualname__):
            rels.append("twin")
        elif o.__name__ == k.__name__:
            rels.append("same-name")
        elif issubclass(o, k):
            rels.append("subclass")
        else:
            rels.append("other")
    return "after-" + "+".join(rels) if rels else "first"


def class_case_src(c):
    v = c["value"]
    if v[0] == "inst":
        vs = "u[%r]()" % v[1]
    else:
        from harness import fieldgen as G
        vs = G.py_src(tuple_deep(v[1]))
    ctx = FORM_CTX[c["form"]]
    return ("import typing\nfrom collections import deque\nfrom typedpy import *\nfrom harness.c02ext import build_scenario\n\n"
            "u = build_scenario(%r)     # fresh class objects: %s\n%s"
            "class T(Structure):\n    f = %s\n    _required = %s\n\nv = %s\n%s\nprint(repr(x.f))\n" % (
                c["scenario"], ", ".join(build_scenario(c["scenario"])),
                "".join("class H%d(Structure):\n    h = Array[u[%r]]\n    _required = []\n\n" % (i, h)
                        for i, h in enumerate(c["hist"])),
                FORM_SRC[c["form"]] % ("u[%r]" % c["cls"]), "[]" if ctx == "assign" else "['f']", vs,
                ("x = T()\nx.f = %s" if ctx == "assign" else "x = T(f=%s)") % wrap_value_src(ctx, "v")))


def class_key(c, o, u, x):
    return "C02/classfield/%s/%s/%s/%s/%s" % (c["scenario"], hist_relation(u, c), c["form"], class_relation(u, c, x),
                                              "accepted" if o[0] == "ok" else o[1])


def run_class_stream(rep, tier, model_ok):
    cases = class_cases(tier)
    groups = collections.OrderedDict()
    for c in cases:
        groups.setdefault((c["scenario"], tuple(c["hist"]), c["cls"], c["form"]), []).append(c)
    kept = []
    for g in groups.values():
        for c, (o, u, x) in zip(g, run_class_group(g)):
            if o[0] == "skip":
                rep.stat("classfield", "skipped:" + o[1])
                continue
            kept.append((c, o, u, x))
            rel = class_relation(u, c, x)
            rep.count("classfield", 1, (c["scenario"], hist_relation(u, c), c["form"], rel, o[0] if o[0] == "ok" else o[1]))
            rep.stat("classfield", "scenario:" + c["scenario"])
            rep.stat("classfield", "history:" + hist_relation(u, c))
            rep.stat("classfield", "form:" + c["form"])
            rep.stat("classfield", "value:" + rel.split(":")[0])
            rep.stat("classfield", "outcome:" + (o[0] if o[0] == "ok" else o[1]))
    if kept:
        c, o, u, x = kept[0]
        rep.sample({"stream": "classfield", "scenario": c["scenario"], "history": c["hist"],
                    "declaration": FORM_SRC[c["form"]] % c["cls"], "value": c["value"], "observed": (o[0], repr(o[1]))})
    if not model_ok:
        return
    try:
        r = eval_stream([emit_class_case(c, o, u, x) for c, o, u, x in kept], "ccase",
                        ("cspec_fail", "cmismatch", "csafe"), "c02cls", class_prelude())
    except RuntimeError as ex:
        rep.broken("correspondence:classfield/coq-eval", str(ex))
        return
    s = rep.cov["streams"]["classfield"]
    s["in_safe_domain_of_theorem"] = len(r["csafe"])
    s["accepted"] = sum(1 for _, o, _, _ in kept if o[0] == "ok")
    fails = set(r["cspec_fail"])
    for i in sorted(fails):
        c, o, u, x = kept[i]
        rep.finding(class_key(c, o, u, x),
                    "a field over an arbitrary class must accept exactly the instances of that class: %s (%s, declared %s) "
                    "given %s -> %s" % (FORM_SRC[c["form"]] % c["cls"], c["scenario"], hist_relation(u, c), c["value"],
                                        (o[0], repr(o[1]))),
                    dict(c, observed=[o[0], repr(o[1])], python=class_case_src(c)))
    rep.obligation("spec-on-observed:classfield", not fails, "%d cases, %d spec failures" % (len(kept), len(fails)))
    mism = r["cmismatch"]
    rep.obligation("correspondence:classfield", not [i for i in mism if i not in fails],
                   "%d cases, %d mismatches (outside reported spec failures)" % (
                       len(kept), len([i for i in mism if i not in fails])))
    if mism and not any(not v["no_input"] for v in rep.violations):
        c, o, u, x = kept[mism[0]]
        rep.broken("correspondence:classfield",
                   "model (Fields/ClassField.v cf_set with the generated registry key) and typedpy differ on %d cases" % len(mism),
                   dict(c, observed=[o[0], repr(o[1])], python=class_case_src(c)))


def replay_class(obj):
    (o, u, x), = run_class_group([obj])
    print("scenario   :", obj["scenario"], "classes", list(u))
    print("history    :", obj["hist"], "(declared earlier, in this order)")
    print("declaration:", FORM_SRC[obj["form"]] % obj["cls"])
    print("value      :", obj["value"])
    print("observed   :", (o[0], repr(o[1])))
    if o[0] == "skip":
        return 2
    try:
        r = eval_stream([emit_class_case(obj, o, u, x)], "ccase", ("cspec_fail", "cmismatch", "csafe"), "c02clsreplay", class_prelude())
    except RuntimeError as ex:
        print(ex)
        return 2
    print("documented rule (accept exactly the instances of the declared class, store the value given, reject with "
          "TypeError/ValueError):", "VIOLATED" if r["cspec_fail"] else "satisfied")
    return 1 if r["cspec_fail"] else 0
