"""C08, constructs of the property's quantifier that the Coq model does not cover (no FieldAst constructor):
StructureReference (inline nested structures), inheritance, ImmutableStructure, an explicit serialization_mapper
argument.  Observed-behaviour clauses only: the real export must be a well-formed draft-4 document whose $refs resolve,
and the real serialization of every listed valid instance must validate (independent validator).

Each case is Python source defining classes, TOP (the exported class), INSTANCES (valid instances) and optionally
MAPPER (passed to both structure_to_schema and serialize)."""

PRELUDE = """from typedpy import *
from typedpy import mappers
import enum as _enum
class Prio(_enum.IntEnum):
    LOW = 1
    HIGH = 2
class Color(_enum.Enum):
    RED = 1
    BLUE = 'b'
MAPPER = None
"""

CASES = [
    ("sref:two-fields", """
class T(Structure):
    s = StructureReference(a=Integer(), b=String())
    n = Integer
TOP = T
INSTANCES = [T(s={'a': 1, 'b': 'x'}, n=1), T(s={'a': 0, 'b': '', 'more': [1]}, n=2)]
"""),
    ("sref:strict-required-subset", """
class T(Structure):
    s = StructureReference(_additional_properties=False, _required=['p'], p=Integer(minimum=1), q=String())
    n = Integer
TOP = T
INSTANCES = [T(s={'p': 1}, n=1), T(s={'p': 5, 'q': 'x'}, n=2)]
"""),
    ("sref:single-field-strict", """
class T(Structure):
    s = StructureReference(_additional_properties=False, x=Integer(minimum=3))
    n = Integer
TOP = T
INSTANCES = [T(s={'x': 3}, n=1)]
"""),
    ("sref:in-array-and-map", """
class T(Structure):
    arr = Array[StructureReference(k=Boolean(), e=Enum[Color])]
    m = Map[String, StructureReference(v=Number(maximum=10))]
TOP = T
INSTANCES = [T(arr=[{'k': True, 'e': Color.RED}, {'k': False, 'e': 'BLUE'}], m={'a': {'v': 2.5}}), T(arr=[], m={})]
"""),
    ("sref:holding-class-reference-and-mixin-enum", """
class Leaf(Structure):
    v = Integer
    w = String
class T(Structure):
    s = StructureReference(leaf=Leaf, p=Enum[Prio], l=Array[Leaf])
    n = Integer
TOP = T
INSTANCES = [T(s={'leaf': Leaf(v=1, w='a'), 'p': Prio.HIGH, 'l': [Leaf(v=2, w='b')]}, n=1)]
"""),
    ("sref:nested-sref", """
class T(Structure):
    s = StructureReference(inner=StructureReference(z=Integer()), y=String())
    n = Integer
TOP = T
INSTANCES = [T(s={'inner': {'z': 1}, 'y': 'a'}, n=1)]
"""),
    ("sref:optional-and-default", """
class T(Structure):
    s = StructureReference(a=Integer(), b=String(default='dd'), _required=['a'])
    n = Integer
    _required = ['n']
TOP = T
INSTANCES = [T(n=1), T(s={'a': 1}, n=2)]
"""),
    ("inheritance:child-adds-fields", """
class Base(Structure):
    a = Integer
    b = String
    _required = ['a']
class Child(Base):
    c = Array[Integer]
    _required = ['a', 'c']
TOP = Child
INSTANCES = [Child(a=1, c=[1, 2]), Child(a=1, b='x', c=[])]
"""),
    ("inheritance:child-redeclares-field", """
class Base(Structure):
    a = Integer
    b = String
class Child(Base):
    a = String(maxLength=3)
TOP = Child
INSTANCES = [Child(a='xyz', b='q')]
"""),
    ("inheritance:reference-to-child-and-base", """
class Base(Structure):
    a = Integer
    b = String
    _additional_properties = False
    _required = ['a']
class Child(Base):
    c = String
    _additional_properties = False
    _required = ['a']
class T(Structure):
    x = Base
    y = Child
    z = Array[Base]
TOP = T
INSTANCES = [T(x=Base(a=1), y=Child(a=2, c='c'), z=[Base(a=3, b='b'), Base(a=4)])]
"""),
    ("immutable:top-and-nested", """
class Leaf(ImmutableStructure):
    v = Integer
    w = Array[String]
class T(ImmutableStructure):
    leaf = Leaf
    m = Map[String, Integer]
    t = Tuple[Integer, String]
TOP = T
INSTANCES = [T(leaf=Leaf(v=1, w=['a']), m={'k': 1}, t=(1, 'x'))]
"""),
    ("mapper-argument:rename", """
class T(Structure):
    first_name = String
    age = Integer
    _required = ['first_name']
TOP = T
MAPPER = {'first_name': 'firstName', 'age': 'AGE'}
INSTANCES = [T(first_name='a', age=3), T(first_name='b')]
"""),
    ("mapper-argument:camelcase", """
class T(Structure):
    my_value = Integer
    my_list = Array[String]
    my_map = Map[String, Integer]
    _additional_properties = False
TOP = T
MAPPER = mappers.TO_CAMELCASE
INSTANCES = [T(my_value=1, my_list=['a'], my_map={'some_key': 1})]
"""),
]


def run_case(src):
    """-> (namespace, ("ok", schema, defs) | ("raise", exn name), [serializations | ("raise", exn name)])."""
    from harness import coqemit as E
    ns = {}
    exec(PRELUDE + src, ns)
    top, mapper = ns["TOP"], ns["MAPPER"]
    try:
        if mapper is None:
            schema, defs = ns["structure_to_schema"](top, {})
        else:
            schema, defs = ns["structure_to_schema"](top, {}, serialization_mapper=mapper)
        out = ("ok", schema, defs)
    except Exception as ex:  # noqa
        out = ("raise", E.exn_name(ex))
    sers = []
    for x in ns["INSTANCES"]:
        try:
            sers.append(ns["serialize"](x) if mapper is None else ns["serialize"](x, mapper=mapper))
        except Exception as ex:  # noqa
            sers.append(("raise", E.exn_name(ex)))
    return ns, out, sers


# ------------------------------------------------------------------ mapper matrix
# mapper kind x where it is given x holder field renamed or not x nested inline structure / array / map of them /
# inline structure inside an inline structure / class reference (with or without its own mapper) / array of class
# references x nested keys renamed or not.  Deterministic; completeness is judged by the independent validator.

M_KINDS = ["NONE", "CAMEL", "LOWER", "DICT", "CHAIN"]
M_WHERE = ["class", "arg"]
M_NESTED = ["sref", "array-sref", "map-sref", "sref-in-sref", "ref", "ref-own-mapper", "array-ref",
            # entries of a LIST of fields (convert_to_schema's list branch): positional items, multi-field wrappers
            "array-positional-sref", "tuple-positional-sref", "anyof-sref", "oneof-sref", "allof-sref"]
# (NotField needs no cell: a value of a NotField is by definition not one of the listed structures, and a dict value of
# a NotField is not serializable at all -- C05's subject)


def matrix_case(mp, where, holder_renamed, kind, keys_renamed):
    holder = "home_addr" if holder_renamed else "addr"
    k1, k2 = ("street_name", "zip_code") if keys_renamed else ("street", "zip")
    inner = "%s=String(minLength=1), %s=String(pattern='^[0-9]+$')" % (k1, k2)
    val = "{%r: 'main', %r: '123'}" % (k1, k2)
    pre = ""
    if kind == "sref":
        decl, inst = "StructureReference(%s)" % inner, val
    elif kind == "array-sref":
        decl, inst = "Array[StructureReference(%s)]" % inner, "[%s, %s]" % (val, val)
    elif kind == "map-sref":
        decl, inst = "Map[String, StructureReference(%s)]" % inner, "{'some_key': %s}" % val
    elif kind == "array-positional-sref":
        decl, inst = "Array(items=[StructureReference(%s), Integer()])" % inner, "[%s, 7]" % val
    elif kind == "tuple-positional-sref":
        decl, inst = "Tuple(items=[Integer(), StructureReference(%s)])" % inner, "(7, %s)" % val
    elif kind == "anyof-sref":
        decl, inst = "AnyOf([Integer(), StructureReference(%s)])" % inner, val
    elif kind == "oneof-sref":
        decl, inst = "OneOf([StructureReference(%s), Integer()])" % inner, val
    elif kind == "allof-sref":
        decl, inst = "AllOf([StructureReference(%s)])" % inner, val
    elif kind == "sref-in-sref":
        decl = "StructureReference(inner_part=StructureReference(%s), note_text=String())" % inner
        inst = "{'inner_part': %s, 'note_text': 'n'}" % val
    else:
        own = "    _serialization_mapper = {%r: 'own_%s'}\n" % (k1, k1) if kind == "ref-own-mapper" else ""
        pre = "class Addr(Structure):\n    %s = String(minLength=1)\n    %s = String(pattern='^[0-9]+$')\n%s" % (k1, k2, own)
        aval = "Addr(%s='main', %s='123')" % (k1, k2)
        decl, inst = ("Array[Addr]", "[%s, %s]" % (aval, aval)) if kind == "array-ref" else ("Addr", aval)
    d = {}
    if holder_renamed:
        d[holder] = "HolderX"
    if keys_renamed:
        sub = {k1: "k1X"}
        d[holder + "._mapper"] = {"inner_part._mapper": sub, "note_text": "nt"} if kind == "sref-in-sref" else sub
    mtxt = {"NONE": "None", "CAMEL": "mappers.TO_CAMELCASE", "LOWER": "mappers.TO_LOWERCASE", "DICT": repr(d),
            "CHAIN": "[%r, mappers.TO_CAMELCASE]" % (d,)}[mp]
    src = pre + "class T(Structure):\n    first_name = String()\n    %s = %s\n" % (holder, decl)
    if where == "class" and mp != "NONE":
        src += "    _serialization_mapper = %s\n" % mtxt
    src += "TOP = T\n"
    if where == "arg" and mp != "NONE":
        src += "MAPPER = %s\n" % mtxt
    src += "INSTANCES = [T(first_name='ann', %s=%s)]\n" % (holder, inst)
    name = "mapper-matrix/%s/%s/holder-%s/%s/keys-%s" % (mp, where, "renamed" if holder_renamed else "kept", kind,
                                                        "renamed" if keys_renamed else "kept")
    return name, src


def matrix_cases():
    out = []
    for mp in M_KINDS:
        for where in M_WHERE:
            if mp == "NONE" and where == "arg":
                continue
            for hr in (False, True):
                for kind in M_NESTED:
                    for kr in (False, True):
                        out.append(matrix_case(mp, where, hr, kind, kr))
    return out


# ------------------------------------------------------------------ rename chains and cycles over SIBLING names
# A mapper may rename a field onto the NAME of a sibling that is itself renamed (x -> a, a -> z), or swap two names
# (x -> a, a -> x); the sibling may also be left out of the document (DoNotSerialize) or replaced by a Constant.
# x kind x sibling kind x chain/cycle x field order x where the mapper is given.

C_X = ["required", "optional", "defaulted"]
C_A = ["required", "optional", "defaulted", "DoNotSerialize", "Constant"]


def chain_case(shape, xk, ak, a_first, where):
    xdecl = "Integer(default=5)" if xk == "defaulted" else "Integer()"
    adecl = "String(default='dd')" if ak == "defaulted" else "String()"
    fields = [("x", xdecl), ("a", adecl)]
    if a_first:
        fields.reverse()
    req = ["n"] + (["x"] if xk == "required" else []) + (["a"] if ak in ("required", "DoNotSerialize", "Constant") else [])
    if ak == "DoNotSerialize":
        amap = "DoNotSerialize"
    elif ak == "Constant":
        amap = "Constant('k')"
    else:
        amap = "'z'" if shape == "chain" else "'x'"
    # a Constant keeps its own key in the document: renaming x onto it would make two fields share one output key (a
    # nonsensical mapper, not a defect of the export), so the Constant sibling comes with x renamed elsewhere
    mtxt = "{'x': %s, 'a': %s}" % ("'y'" if ak == "Constant" else "'a'", amap)
    src = "from typedpy.serialization.mappers import DoNotSerialize\nfrom typedpy.commons import Constant\n"
    src += "class T(Structure):\n" + "".join("    %s = %s\n" % fd for fd in fields) + "    n = Boolean()\n"
    src += "    _required = %r\n" % sorted(req)
    if where == "class":
        src += "    _serialization_mapper = %s\n" % mtxt
    src += "TOP = T\n"
    if where == "arg":
        src += "MAPPER = %s\n" % mtxt
    insts = ["T(x=1, a='s', n=True)"]
    if xk != "required" and ak not in ("required", "DoNotSerialize", "Constant"):
        insts.append("T(n=False)")
    if xk != "required":
        insts.append("T(a='s', n=False)")
    if ak not in ("required", "DoNotSerialize", "Constant"):
        insts.append("T(x=2, n=False)")
    src += "INSTANCES = [%s]\n" % ", ".join(insts)
    name = "rename-%s/%s/x-%s/a-%s/%s-first" % (shape, where, xk, ak, "a" if a_first else "x")
    return name, src


def chain_cases():
    out = []
    for shape in ("chain", "cycle"):
        for where in M_WHERE:
            for xk in C_X:
                for ak in C_A:
                    if shape == "cycle" and ak in ("DoNotSerialize", "Constant"):
                        continue
                    for a_first in (False, True):
                        out.append(chain_case(shape, xk, ak, a_first, where))
    return out
