"""Class statements, hierarchies and derivation-operator programs in the model's AST (Struct/Define.v,
Struct/Derive.v): seeded generation, rendering as Python source, realisation by exec (so that the
metaclass, annotation handling and frame inspection run as for a user), observation of the resulting
class objects, emission as Gallina terms.  Shared by C12 and C14.

Statement AST (JSON-able):
  {"name", "bases": [names], "members": [member], "required": None|[names], "optional": None|[names],
   "additional": None|bool, "ignore_none": None|bool, "attrs": [[name, kind]], "keys_of": [[member names]]}
  member: {"name", "kind": "decl", "field": <fieldgen AST>, "imm": bool, "style": "ann"|"assign",
           "kwd": None|defval, "eqd": None|defval, optional "spell": source text of an equivalent spelling of the field}
        | {"name", "kind": "const", "value": reified}
  defval: ["lit", reified] | ["factory", reified]       (factory: `lambda: <value>`)
  attr kind: "bool" | "list" | "dict" | "int" | "str" | "type"
Program step: ["def", stmt] | ["mixin", name] | ["derive", src, op, cname|None] | ["derive", src, op, cname|None, "method"]
  (the 5-element form spells omit/pick as the classmethod: `Src.omit('a', class_name=...)`)
  op: ["partial"] | ["allreq"] | ["extend"] | ["omit", [names]] | ["pick", [names]]
"""
import inspect

from harness import coqemit as E
from harness import fieldgen as G

BUILTIN_BASES = ("Structure", "ImmutableStructure", "FinalStructure", "AbstractStructure")

IMPORTS = (G.IMPORTS +
           "from typedpy import (Partial, Omit, Pick, Extend, AllFieldsRequired, FinalStructure, AbstractStructure, "
           "Constant, keys_of, ImmutableField, Field)\nimport enum\n")

ATTR_SRC = {"bool": "True", "boolf": "False", "list": "[1, 2]", "dict": "{'a': 1}", "int": "5", "str": "'s'", "type": "int"}
ATTR_COQ = {"bool": "UBool", "boolf": "UBool", "list": "UList", "dict": "UDict", "int": "UInt", "str": "UStr", "type": "UType"}


# ------------------------------------------------------------------ python source

def defval_src(d):
    if d[0] == "lit":
        return G.py_src(d[1])
    return "(lambda: %s)" % G.py_src(d[1])


def field_decl_src(m):
    if m.get("spell") and m.get("kwd") is None and not m.get("imm"):
        # another spelling of the SAME field (bare Field class / plain python type), chosen by the generator: the
        # model's statement is the one of the canonical constructor call
        return m["spell"]
    src = G.field_src(m["field"])
    extra = []
    if m.get("imm"):
        extra.append("immutable=True")
    if m.get("kwd") is not None:
        extra.append("default=%s" % defval_src(m["kwd"]))
    if extra:
        inner = src[:-1]
        src = inner + ("" if inner.endswith("(") else ", ") + ", ".join(extra) + ")"
    return src


def stmt_src(s):
    lines = []
    for i, names in enumerate(s.get("keys_of") or []):
        lines.append("class KE_%s_%d(enum.Enum):" % (s["name"], i))
        for j, n in enumerate(names):
            lines.append("    %s = %d" % (n, j + 1))
        if not names:
            lines.append("    pass")
    if s.get("keys_of"):
        lines.append("@keys_of(%s)" % ", ".join("KE_%s_%d" % (s["name"], i) for i in range(len(s["keys_of"]))))
    lines.append("class %s(%s):" % (s["name"], ", ".join(s["bases"])))
    body = []
    for m in s["members"]:
        if m["kind"] == "const":
            body.append("%s = Constant(%s)" % (m["name"], G.py_src(m["value"])))
        elif m.get("style") == "assign":
            body.append("%s = %s" % (m["name"], field_decl_src(m)))
        else:
            line = "%s: %s" % (m["name"], field_decl_src(m))
            if m.get("eqd") is not None:
                line += " = %s" % defval_src(m["eqd"])
            body.append(line)
    if s.get("required") is not None:
        body.append("_required = %r" % list(s["required"]))
    if s.get("optional") is not None:
        body.append("_optional = %r" % list(s["optional"]))
    if s.get("additional") is not None:
        body.append("_additional_properties = %r" % s["additional"])
    if s.get("ignore_none") is not None:
        body.append("_ignore_none = %r" % s["ignore_none"])
    for n, kind in s.get("attrs") or []:
        body.append("%s = %s" % (n, ATTR_SRC[kind]))
    if not body:
        body.append("pass")
    return "\n".join(lines + ["    " + b for b in body]) + "\n"


OP_CLS = {"partial": "Partial", "allreq": "AllFieldsRequired", "extend": "Extend", "omit": "Omit", "pick": "Pick"}


def derived_name(step):
    _, src, op, cname = step[:4]
    return cname or (OP_CLS[op[0]] + src)


def step_src(step):
    if step[0] == "def":
        return stmt_src(step[1])
    if step[0] == "mixin":
        return "class %s:\n    def hello(self):\n        return 1\n" % step[1]
    _, src, op, cname = step[:4]
    name = derived_name(step)
    if len(step) > 4 and step[4] == "method" and op[0] in ("omit", "pick"):
        args = ", ".join(["%r" % n for n in op[1]] + (["class_name=%r" % cname] if cname else []))
        return "%s = %s.%s(%s)\n" % (name, src, op[0], args)
    if op[0] in ("omit", "pick"):
        names = "(" + "".join("%r, " % n for n in op[1]) + ")"
        args = "%s, %s" % (src, names) + (", %r" % cname if cname else "")
    else:
        args = src + (", %r" % cname if cname else "")
    return "%s = %s[%s]\n" % (name, OP_CLS[op[0]], args)


def step_name(step):
    if step[0] == "def":
        return step[1]["name"]
    if step[0] == "mixin":
        return step[1]
    return derived_name(step)


def program_src(prog):
    return IMPORTS + "\n" + "\n".join(step_src(s) for s in prog)


# ------------------------------------------------------------------ realisation and observation

def fresh_ns():
    ns = {}
    exec(IMPORTS, ns)
    return ns


def observe_default(d):
    if d is None:
        return None
    if callable(d):
        return ["factory", E.reify(d())]
    return ["lit", E.reify(d)]


def observe(cls):
    """The observable facts of a class object the property speaks about."""
    from typedpy.structures.structures import UniqueMixin, Field
    from typedpy.commons import Constant
    sig = cls.__signature__
    req, opt, kw = [], [], False
    for n, p in sig.parameters.items():
        if p.kind == inspect.Parameter.VAR_KEYWORD:
            kw = True
        elif p.default is inspect.Parameter.empty:
            req.append(n)
        else:
            opt.append(n)
    fields = cls.get_all_fields_by_name()
    defaults = []
    for n, f in fields.items():
        if isinstance(f, Field):
            defaults.append([n, observe_default(getattr(f, "_default", None))])
    return {"name": cls.__name__, "fields": list(fields.keys()), "required": list(getattr(cls, "_required")),
            "sig_req": req, "sig_opt": opt, "kwargs": kw,
            "consts": [[n, E.reify(v)] for n, v in getattr(cls, "_constants", {}).items()],
            "mro": [c.__name__ for c in cls.__mro__ if c not in (UniqueMixin, object)],
            "defaults": defaults,
            "ignore_none": bool(getattr(cls, "_ignore_none", False)),
            "immutable": bool(getattr(cls, "_immutable", False))}


def run_program(prog, guards=None):
    """Executes the steps one by one in a fresh namespace.  Returns (ns, [outcome]); outcome =
    ("ok", observation) | ("raise", exception class name) | ("mixin",).  A failed step leaves no name."""
    from typedpy.structures import TypedPyDefaults
    from typedpy import Structure
    saved = (TypedPyDefaults.block_unknown_consts, Structure.__dict__.get("_block_non_typedpy_field_assignment", None),
             TypedPyDefaults.additional_properties_default)
    ns = fresh_ns()
    out = []
    try:
        if guards is not None:
            TypedPyDefaults.block_unknown_consts = bool(guards[0])
            Structure.set_block_non_typedpy_field_assignment(bool(guards[1]))
        for st in prog:
            name = step_name(st)
            try:
                exec(step_src(st), ns)
            except Exception as ex:  # noqa
                ns.pop(name, None)
                out.append(("raise", E.exn_name(ex), repr(ex)[:200]))
                continue
            if st[0] == "mixin":
                out.append(("mixin", name))
            else:
                out.append(("ok", observe(ns[name])))
    finally:
        TypedPyDefaults.block_unknown_consts = saved[0]
        if saved[1] is None:
            if "_block_non_typedpy_field_assignment" in Structure.__dict__:
                delattr(Structure, "_block_non_typedpy_field_assignment")
        else:
            Structure.set_block_non_typedpy_field_assignment(saved[1])
        TypedPyDefaults.additional_properties_default = saved[2]
    return ns, out


# ------------------------------------------------------------------ Gallina

def emit_defval(d):
    if d is None:
        return "None"
    return "(Some (%s %s))" % ("DLit" if d[0] == "lit" else "DFactory", E.pval(tuple_r(d[1])))


def tuple_r(r):
    """JSON round trips turn tuples into lists: restore the reified tuple form."""
    if isinstance(r, (list, tuple)):
        t = r[0]
        if t in ("list", "tuple", "deque"):
            return (t, [tuple_r(x) for x in r[1]])
        if t == "set":
            return (t, r[1], [tuple_r(x) for x in r[2]])
        if t == "dict":
            return (t, [(tuple_r(k), tuple_r(v)) for k, v in r[1]])
        if t == "enum":
            return (t, r[1], r[2], tuple_r(r[3]))
        if t == "struct":
            return (t, r[1], [(k, tuple_r(v)) for k, v in r[2]])
        return tuple(r)
    return r


def emit_member(m):
    if m["kind"] == "const":
        return "(%s, SConst %s)" % (E.pstr(m["name"]), E.pval(tuple_r(m["value"])))
    return "(%s, SDecl %s %s %s %s)" % (E.pstr(m["name"]), G.emit_field(m["field"]), E.blit(bool(m.get("imm"))),
                                        emit_defval(m.get("kwd")), emit_defval(m.get("eqd")))


def names_lit(ns):
    return E.lst([E.pstr(n) for n in ns])


def emit_stmt(s):
    return ("{| s_name := %s; s_bases := %s; s_members := %s; s_required := %s; s_optional := %s; "
            "s_additional := %s; s_ignore_none := %s; s_attrs := %s; s_keys_of := %s |}") % (
        E.pstr(s["name"]), names_lit(s["bases"]), E.lst([emit_member(m) for m in s["members"]]),
        E.opt(s.get("required"), names_lit), E.opt(s.get("optional"), names_lit),
        E.opt(s.get("additional"), E.blit), E.opt(s.get("ignore_none"), E.blit),
        E.lst(["(%s, %s)" % (E.pstr(n), ATTR_COQ[k]) for n, k in s.get("attrs") or []]),
        E.lst([names_lit(ns) for ns in s.get("keys_of") or []]))


def emit_op(op):
    if op[0] == "partial":
        return "OpPartial"
    if op[0] == "allreq":
        return "OpAllRequired"
    if op[0] == "extend":
        return "OpExtend"
    return "(%s %s)" % ("OpOmit" if op[0] == "omit" else "OpPick", names_lit(op[1]))


def emit_action(st):
    if st[0] == "def":
        return "(ADef %s)" % emit_stmt(st[1])
    if st[0] == "mixin":
        return "(AMixin %s)" % E.pstr(st[1])
    return "(ADerive %s %s %s)" % (E.pstr(st[1]), emit_op(st[2]), E.opt(st[3], E.pstr))


def emit_obs(o):
    if o[0] == "raise":
        return "(@Raise obs_class %s)" % E.exn(o[1])
    if o[0] == "mixin":
        return ("(Ok {| oc_name := %s; oc_fields := []; oc_required := []; oc_sig_req := []; oc_sig_opt := []; "
                "oc_kwargs := false; oc_consts := []; oc_mro := [%s]; oc_defaults := []; oc_ignore_none := false; "
                "oc_immutable := false |})") % (E.pstr(o[1]), E.pstr(o[1]))
    c = o[1]
    return ("(Ok {| oc_name := %s; oc_fields := %s; oc_required := %s; oc_sig_req := %s; oc_sig_opt := %s; "
            "oc_kwargs := %s; oc_consts := %s; oc_mro := %s; oc_defaults := %s; oc_ignore_none := %s; "
            "oc_immutable := %s |})") % (
        E.pstr(c["name"]), names_lit(c["fields"]), names_lit(c["required"]), names_lit(c["sig_req"]),
        names_lit(c["sig_opt"]), E.blit(c["kwargs"]),
        E.lst(["(%s, %s)" % (E.pstr(n), E.pval(tuple_r(v))) for n, v in c["consts"]]),
        names_lit(c["mro"]), E.lst(["(%s, %s)" % (E.pstr(n), emit_defval(d)) for n, d in c["defaults"]]),
        E.blit(c["ignore_none"]), E.blit(c["immutable"]))


def prog_fields_values(prog):
    fields, values = [], []
    for st in prog:
        if st[0] == "def":
            for m in st[1]["members"]:
                if m["kind"] == "decl":
                    fields.append(m["field"])
                    for d in (m.get("kwd"), m.get("eqd")):
                        if d is not None:
                            values.append(tuple_r(d[1]))
    return fields, values


def emit_case(prog, outcomes, guards):
    fields, values = prog_fields_values(prog)
    tbl = G.match_table(fields, values)
    steps = []
    for st, o in zip(prog, outcomes):
        steps.append("(%s, %s)" % (emit_action(st), emit_obs(o)))
    return ("{| dc_tbl := %s; dc_guards := {| gd_block_unknown_consts := %s; gd_block_non_typedpy := %s; "
            "gd_additional_default := %s |}; dc_prog := %s |}") % (
        G.emit_table(tbl), E.blit(guards[0]), E.blit(guards[1]), E.blit(guards[2] if len(guards) > 2 else True), E.lst(["\n   " + s for s in steps]))


HEADER = """From Coq Require Import ZArith NArith String List Bool. Import ListNotations.
From TP Require Import Check.Fieldchk Check.Defchk.
Local Open Scope string_scope.
"""


def parse_pairs(s):
    """'[(1, 2); (3, 4)]' -> [(1, 2), (3, 4)]"""
    import re
    s = re.sub(r"%\w+", "", s)
    return [(int(a), int(b)) for a, b in re.findall(r"\((\d+),\s*(\d+)\)", s)]


def parse_list_of_pairlists(s):
    """'[[(0, 1)]; []; [(2, 6); (2, 2)]]' -> list of lists"""
    import re
    s = re.sub(r"%\w+", "", s).strip()
    out = []
    depth = 0
    cur = ""
    for ch in s:
        if ch == "[":
            depth += 1
            if depth == 2:
                cur = ""
                continue
        elif ch == "]":
            depth -= 1
            if depth == 1:
                out.append(parse_pairs(cur))
                continue
        if depth >= 2:
            cur += ch
    return out


# ------------------------------------------------------------------ generation

FIELD_NAMES = ["a", "b", "c", "d", "e1", "f_2", "g", "h", "i2", "j"]
DEFAULTABLE = ("num", "str", "bool", "enumlit", "enumcls", "seqany", "seqeach", "set", "mapany", "mapkv", "tuple")


def gen_field(rnd, max_depth=1):
    return G.gen_field(rnd, 1 if max_depth <= 1 else 0, classes=(), max_depth=max_depth)


def literal_ok(r):
    """Values the harness can write as a Python literal and the model can read back."""
    t = r[0]
    if t == "other":
        return False
    if t in ("list", "tuple", "deque"):
        return all(literal_ok(x) for x in r[1])
    if t == "set":
        return all(literal_ok(x) for x in r[2])
    if t == "dict":
        return all(literal_ok(k) and literal_ok(v) for k, v in r[1])
    if t == "flt":
        return abs(r[2]) < 60
    return True


def gen_default(rnd, f, valid=True):
    """A default for field f: literal for immutable values, factory for containers (or, on purpose,
    a mutable literal when asked through gen_mutable_literal)."""
    for _ in range(8):
        v = G.gen_valid(rnd, f, {})
        if not valid:
            v = G.corrupt(rnd, f, v, {})
        if literal_ok(v) and v[0] != "none":
            break
    else:
        return None
    if v[0] in ("list", "dict", "deque") or (v[0] == "set" and not v[1]):
        return ["factory", v]
    if rnd.random() < 0.12:
        return ["factory", v]
    return ["lit", v]


def gen_members(rnd, names, p_default=0.35, p_const=0.0, max_depth=1, p_kw=0.4):
    out = []
    for n in names:
        if rnd.random() < p_const:
            out.append({"name": n, "kind": "const",
                        "value": E.reify(rnd.choice([1, 5, "k", True, 2.5, G.Color.RED, 0, ""]))})
            continue
        f = gen_field(rnd, max_depth)
        m = {"name": n, "kind": "decl", "field": f, "imm": rnd.random() < 0.08, "style": "ann", "kwd": None, "eqd": None}
        if f["t"] in DEFAULTABLE and rnd.random() < p_default:
            d = gen_default(rnd, f)
            if d is not None:
                if rnd.random() < p_kw:
                    m["kwd"] = d
                    m["style"] = rnd.choice(["ann", "assign"])
                else:
                    m["eqd"] = d
        elif rnd.random() < 0.2:
            m["style"] = "assign"
        out.append(m)
    return out


def gen_stmt(rnd, name, bases, names, p_const=0.0, p_default=0.35, max_depth=1):
    members = gen_members(rnd, names, p_default=p_default, p_const=p_const, max_depth=max_depth)
    s = {"name": name, "bases": list(bases), "members": members, "required": None, "optional": None,
         "additional": None, "ignore_none": None, "attrs": [], "keys_of": []}
    own = [m["name"] for m in members]
    r = rnd.random()
    if r < 0.35:
        s["required"] = sorted(rnd.sample(own, rnd.randint(0, len(own))))
    elif r < 0.55 and own:
        s["optional"] = sorted(rnd.sample(own, rnd.randint(0, len(own))))
    s["additional"] = rnd.choice([None, None, True, False])
    if rnd.random() < 0.3:
        s["ignore_none"] = rnd.choice([True, True, False])
    if rnd.random() < 0.15:
        s["attrs"].append([rnd.choice(["_foo", "_custom_attribute_x", "bar"]), rnd.choice(["int", "str"])])
    return s


def field_ast_map(prog, ns):
    """name of realised class -> {field name: field AST or None (constant)}, following the real MRO for
    class statements and the real field list for derived classes."""
    stmts = {st[1]["name"]: st[1] for st in prog if st[0] == "def"}
    out = {}
    for st in prog:
        name = step_name(st)
        cls = ns.get(name)
        if cls is None or st[0] == "mixin":
            continue
        if st[0] == "def":
            acc = {}
            for c in reversed(cls.__mro__):
                s = stmts.get(c.__name__)
                if s is not None and ns.get(c.__name__) is c:
                    for m in s["members"]:
                        acc[m["name"]] = m["field"] if m["kind"] == "decl" else None
                elif c.__name__ in out and ns.get(c.__name__) is c:
                    acc.update(out[c.__name__])
            out[name] = acc
        else:
            src = out.get(st[1], {})
            out[name] = {n: src.get(n) for n in cls.get_all_fields_by_name().keys()}
    return out
