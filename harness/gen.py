"""Generated layer: facts re-derived from /repo's working tree (and from the running CPython) on
every run and written to coq/theories/Gen/*.v, so that the kernel re-checks the proofs that depend
on them against what the code says NOW.  Files are rewritten only when their content changes.

Gen/Tables.v:
  * for each base type (list, deque, dict) the TOTAL set of its mutators, found by introspection
    and probing of a plain instance (not a hand-picked list);
  * for each typedpy wrapper class (_ListStruct, _DequeStruct, _DictStruct) the *shape* of its
    override of every such mutator, recognised structurally on the AST of collections_impl.py;
  * accessors of the wrapper classes that hand out contained objects, with their shape.
Fails closed: anything not recognised becomes `Unrecognised`, which no safety predicate accepts."""
import ast
import collections
import copy
import inspect
import os
import sys

from harness import core
from harness import coqemit as E

EXCLUDED = {"__init__", "__new__", "__setstate__", "__reduce__", "__reduce_ex__", "__init_subclass__",
            "__class__", "__setattr__", "__delattr__", "__getattribute__", "__getstate__", "__subclasshook__",
            "__class_getitem__", "__sizeof__", "__dir__", "__format__", "__repr__", "__str__", "__hash__",
            "__doc__", "__copy__", "__deepcopy__"}

ARG_CANDIDATES = [(), (0,), (1,), ([5],), (0, 5), ({"k": 9},), ("a",), ("a", 1), (slice(0, 1), [9]), (2,),
                  ({"zz"},), (["a"],), ("zz",), ({"a"},), ({"a", "zz"},)]


def _samples(base):
    if base is list:
        return lambda: [3, 1, 2]
    if base is collections.deque:
        return lambda: collections.deque([3, 1, 2])
    if base is dict:
        return lambda: {"a": 1, "b": 2}
    if base is set:
        return lambda: {"a", "b", 1}
    raise ValueError(base)


def _state(x):
    if isinstance(x, dict):
        return ("d", list(x.items()))
    if isinstance(x, set):
        return ("s", sorted(map(repr, x)))
    return ("l", list(x))


def mutators_of(base):
    """Names of public methods / in-place and item dunders of `base` that change a plain instance."""
    mk = _samples(base)
    out = []
    for name in sorted(dir(base)):
        if name in EXCLUDED:
            continue
        if name.startswith("__") and not (name.startswith("__i") or name in ("__setitem__", "__delitem__")):
            continue
        if name.startswith("_") and not name.startswith("__"):
            continue
        meth = getattr(base, name, None)
        if not callable(meth):
            continue
        mutates = False
        for args in ARG_CANDIDATES:
            x = mk()
            before = _state(x)
            try:
                getattr(x, name)(*copy.deepcopy(args))
            except Exception:  # noqa
                continue
            if _state(x) != before:
                mutates = True
                break
        if mutates:
            out.append(name)
    return out


def _class_node(tree, name):
    for n in ast.walk(tree):
        if isinstance(n, ast.ClassDef) and n.name == name:
            return n
    return None


def _is_guard(stmt):
    """`self._raise_if_immutable()` or `super()._raise_if_immutable()` as a statement."""
    if not (isinstance(stmt, ast.Expr) and isinstance(stmt.value, ast.Call)):
        return False
    f = stmt.value.func
    return isinstance(f, ast.Attribute) and f.attr == "_raise_if_immutable"


def _calls(node):
    return [n for n in ast.walk(node) if isinstance(n, ast.Call)]


def _is_setattr_instance(call):
    """setattr(self._instance, <field name>, <value>)"""
    if not (isinstance(call.func, ast.Name) and call.func.id == "setattr" and len(call.args) == 3):
        return False
    a0 = call.args[0]
    return isinstance(a0, ast.Attribute) and a0.attr == "_instance"


def _is_super_call(call, name):
    f = call.func
    return (isinstance(f, ast.Attribute) and f.attr == name and isinstance(f.value, ast.Call)
            and isinstance(f.value.func, ast.Name) and f.value.func.id == "super")


def shape_of(fn, name):
    body = [s for s in fn.body if not (isinstance(s, ast.Expr) and isinstance(s.value, ast.Constant))]
    guard = bool(body) and _is_guard(body[0])
    calls = _calls(fn)
    reassign = [c for c in calls if _is_setattr_instance(c)]
    if reassign:
        # the reassignment must not be skippable except by the "no instance" test typedpy uses
        return "(CopyMutateReassign %s)" % E.blit(guard)
    if guard and any(_is_super_call(c, name) for c in calls):
        return "GuardThenInPlace"
    return "Unrecognised"


WRAPPERS = [("list", list, "_ListStruct"), ("deque", collections.deque, "_DequeStruct"), ("dict", dict, "_DictStruct")]


def tables():
    path = os.path.join(core.REPO, "typedpy", "fields", "collections_impl.py")
    tree = ast.parse(open(path).read())
    out = {}
    for kind, base, wname in WRAPPERS:
        cls = _class_node(tree, wname)
        if cls is None:
            raise RuntimeError("wrapper class %s not found in collections_impl.py" % wname)
        methods = {n.name: n for n in cls.body if isinstance(n, ast.FunctionDef)}
        # inherited overrides from other classes in the same file are not followed: fail closed
        rows = []
        for m in mutators_of(base):
            if m in methods:
                rows.append((m, shape_of(methods[m], m)))
            else:
                rows.append((m, "NotOverridden"))
        out[kind] = rows
    out["set"] = [(m, "NotOverridden") for m in mutators_of(set)]
    return out


def render_tables(t):
    lines = ["(* GENERATED by harness/gen.py from /repo/typedpy/fields/collections_impl.py and the running CPython",
             "   (%s). Do not edit. *)" % sys.version.split()[0],
             "From Coq Require Import List String. Import ListNotations.",
             "From TP Require Import Base.PyVal Struct.Shapes.", "Local Open Scope string_scope.", ""]
    for kind in ("list", "deque", "dict", "set"):
        rows = ["(%s, %s)" % (E.pstr(m), s) for m, s in t[kind]]
        lines.append("Definition %s_mutators : mutator_table :=\n  [ %s ]." % (kind, ";\n    ".join(rows)))
        lines.append("")
    return "\n".join(lines) + "\n"


def regenerate():
    """Rewrites every generated Coq file (only when its content changes).  Plug-ins live in
    harness/genmods/*.py, each exposing regenerate()."""
    t = tables()
    core.write_if_changed(os.path.join(core.COQDIR, "theories", "Gen", "Tables.v"), render_tables(t))
    import importlib
    import pkgutil
    import harness.genmods as gm
    for m in sorted(pkgutil.iter_modules(gm.__path__), key=lambda x: x.name):
        mod = importlib.import_module("harness.genmods." + m.name)
        if hasattr(mod, "regenerate"):
            mod.regenerate()
    return t
