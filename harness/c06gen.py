"""Generators private to the C06 check (harness/props/c06.py), on top of harness/sergen.py:

* world W — classes of the model's fragment that are rich in multi-field wrappers (AnyOf / OneOf / AllOf /
  NotField over overlapping options: positional Tuple/Array/Deque, homogeneous collections, maps, class
  references, None, nested wrappers; wrappers as fields, as array/deque/set items, as map values and as
  positional items);
* world X — the same, over field classes that Fields/FieldAst.v does not have (`{"t": "ext", "k": ...}`:
  DecimalNumber, DateField, DateTime, TimeField, DateString, TimeString, IPV4, HostName, JSONString).  Their
  documents are judged by the constructor-on-documented-reading oracle only (no Coq correspondence);
* the trial-failure lattice — a deterministic enumeration of wrapper kind x an alternative whose *trial*
  fails with an exception that is not a TypeError/ValueError x another alternative x order x position
  x document;
* deep single-point corruptions (at any aligned position of a document, not only at the top of a field);
* `known_escapes`: which non-TypeError/ValueError exceptions the open findings let escape for a document
  (the part of a finding key that names the call site: outside every multi-field wrapper)."""
import collections
import copy
import datetime
import decimal

from harness import fieldgen as G
from harness import structgen as S
from harness import sergen as SG

WRAPPERS = ("anyof", "oneof", "allof", "not")

# ------------------------------------------------------------------ fields outside the model

EXT = {
    "Decimal": "DecimalNumber()",
    "DecimalMin": "DecimalNumber(minimum=0)",
    "DateField": "DateField()",
    "DateFieldDMY": "DateField(date_format='%d/%m/%Y')",
    "TimeField": "TimeField()",
    "DateTime": "DateTime()",
    "DateTimeISO": "DateTime(datetime_format='%Y-%m-%dT%H:%M:%S')",
    "DateString": "DateString()",
    "TimeString": "TimeString()",
    "IPV4": "IPV4()",
    "HostName": "HostName()",
    "JSONString": "JSONString()",
}

IMPORTS = SG.IMPORTS + ("from typedpy import DecimalNumber, DateString, TimeString, DateField, DateTime, IPV4, HostName, "
                        "JSONString\nfrom typedpy.extfields import TimeField\nimport datetime\n")

D = decimal.Decimal
EXT_VALID = {   # constructor arguments the field accepts (Python values)
    "Decimal": [D("12.50"), "12.50", 3, 2.5, 0, "-7", D("0"), "1e3"],
    "DecimalMin": [D("12.50"), "0", 3, 2.5, 0],
    "DateField": [datetime.date(2020, 1, 31), "1999-12-01", datetime.date(1950, 6, 15)],
    "DateFieldDMY": [datetime.date(2020, 1, 31), "01/12/1999"],
    "TimeField": [datetime.time(7, 15, 45), "23:59:59", datetime.time(0, 0, 0)],
    "DateTime": [datetime.datetime(2020, 1, 31, 7, 15, 45), "01/31/20 07:15:45"],
    "DateTimeISO": [datetime.datetime(2020, 1, 31, 7, 15, 45), "1999-12-01T00:00:00"],
    "DateString": ["2020-01-31", "1999-12-01"],
    "TimeString": ["07:15:45", "00:00:00"],
    "IPV4": ["10.0.0.1", "255.255.255.255"],
    "HostName": ["example.com", "a-b.c"],
    "JSONString": ['{"a": 1}', "[]", '"x"', "0"],
}
# strings that are NOT the formatted form of the field (single-point corruption "malformed-string")
EXT_MALFORMED = ["n/a", "", "2020-13-45", "25:61:00", "12.5.3", "999.1.1.1", "{", "1999-12-01", "07:15:45", "12.50"]


def has_ext(f):
    return "ext" in SG.field_kinds(f)


def _strip_ext(f, table):
    """copy of declaration f with every ext node replaced by a class-reference placeholder"""
    if f["t"] == "ext":
        name = "EXT%d_PLACEHOLDER" % len(table)
        table.append((name, EXT[f["k"]]))
        return {"t": "ref", "cls": name}
    g = dict(f)
    for key in ("item", "kf", "vf"):
        if isinstance(f.get(key), dict):
            g[key] = _strip_ext(f[key], table)
    for key in ("items", "fs"):
        if f.get(key) is not None:
            g[key] = [_strip_ext(x, table) for x in f[key]]
    return g


def field_src(f):
    table = []
    s = SG.field_src(_strip_ext(f, table))
    for name, src in table:
        s = s.replace(name, src)
    return s


def class_src(c):
    table = []
    c2 = dict(c)
    c2["fields"] = [dict(fd, field=_strip_ext(fd["field"], table)) for fd in c["fields"]]
    s = SG.class_src(c2)
    for name, src in table:
        s = s.replace(name, src)
    return s


class XContext(SG.SerContext):
    """class environment whose declarations may contain ext fields (Python side only)"""

    def __init__(self, asts=()):
        self.asts = []
        self.ns = {}
        exec(IMPORTS, self.ns)
        self.classes = {}
        self.instances = {}
        self.pyinstances = {}
        for c in asts:
            self.add(c)

    def add(self, c):
        exec(class_src(c), self.ns)
        self.asts.append(c)
        self.classes[c["name"]] = self.ns[c["name"]]
        self.instances[c["name"]] = []
        self.pyinstances[c["name"]] = []

    def source(self):
        return "".join(class_src(c) + "\n" for c in self.asts)


_sfc_cache = {}


def single_field_class(f, ctx, required=True):
    key = (id(ctx), repr(f), required)
    T = _sfc_cache.get(key)
    if T is None:
        if len(_sfc_cache) > 20000:
            _sfc_cache.clear()
        ns = dict(ctx.ns)
        exec("class T(Structure):\n    f = %s\n    _required = %s\n" % (field_src(f), "['f']" if required else "[]"), ns)
        T = _sfc_cache[key] = ns["T"]
    return T


# ------------------------------------------------------------------ declarations: world W (model) and X (ext)

def scalar(rnd, simple=True):
    return SG.gen_scalar(rnd, simple=simple)


def _positional(rnd, sub):
    r = rnd.random()
    if r < 0.5:
        return {"t": "tuple", "items": [sub() for _ in range(rnd.choice([2, 2, 3]))], "uniq": False}
    if r < 0.6:
        return {"t": "tuple", "items": [sub()], "uniq": False}
    return {"t": "seqpos", "k": rnd.choice(["list", "list", "deque"]), "items": [sub() for _ in range(rnd.randint(1, 3))],
            "sz": [None, None], "uniq": False, "additional": rnd.choice([None, None, False, True])}


def gen_option(rnd, classes, depth, max_depth, ext=False):
    """an alternative of a multi-field wrapper"""
    sc = (lambda: gen_ext(rnd) if ext and rnd.random() < 0.5 else scalar(rnd))
    r = rnd.random()
    if ext and r < 0.35:
        return gen_ext(rnd)
    if r < 0.28:
        return scalar(rnd, simple=rnd.random() < 0.6)
    if r < 0.46:
        return _positional(rnd, sc)
    if r < 0.58:
        return {"t": "seqeach", "k": rnd.choice(["list", "list", "deque"]),
                "item": sc() if rnd.random() < 0.7 else _positional(rnd, sc), "sz": [None, None], "uniq": False}
    if r < 0.64:
        return {"t": "set", "imm": False, "item": scalar(rnd), "sz": [None, None]}
    if r < 0.74:
        return {"t": "mapkv", "kf": {"t": "str"}, "vf": sc(), "sz": [None, None]}
    if r < 0.82:
        return {"t": "none"}
    if r < 0.92 and classes:
        return {"t": "ref", "cls": rnd.choice(list(classes))}
    if depth + 1 < max_depth:
        return gen_wrapper(rnd, classes, depth + 1, max_depth, ext)
    return scalar(rnd)


def gen_wrapper(rnd, classes=(), depth=0, max_depth=2, ext=False):
    t = G.weighted(rnd, [("anyof", 40), ("oneof", 30), ("allof", 12), ("not", 18)])
    n = rnd.choice([2, 2, 3]) if t in ("anyof", "oneof") else rnd.choice([1, 2, 2])
    return {"t": t, "fs": [gen_option(rnd, classes, depth, max_depth, ext) for _ in range(n)]}


def gen_ext(rnd):
    return {"t": "ext", "k": rnd.choice(sorted(EXT))}


def gen_wfield(rnd, classes=(), max_depth=2, ext=False):
    """a field declaration that contains a multi-field wrapper (or, in world X, an ext field)"""
    w = lambda: gen_wrapper(rnd, classes, 0, max_depth, ext)
    r = rnd.random()
    if ext and r < 0.25:
        x = gen_ext(rnd)
        q = rnd.random()
        if q < 0.5:
            return x
        if q < 0.7:
            return {"t": "seqeach", "k": "list", "item": x, "sz": [None, None], "uniq": False}
        if q < 0.85:
            return {"t": "mapkv", "kf": {"t": "str"}, "vf": x, "sz": [None, None]}
        return {"t": "tuple", "items": [x, scalar(rnd)], "uniq": False}
    if r < 0.55:
        return w()
    if r < 0.70:
        return {"t": "seqeach", "k": rnd.choice(["list", "list", "deque"]), "item": w(), "sz": [None, None], "uniq": False}
    if r < 0.78:
        return {"t": "mapkv", "kf": {"t": "str"}, "vf": w(), "sz": [None, None]}
    if r < 0.86:
        return {"t": "tuple", "items": [w(), scalar(rnd)], "uniq": False}
    if r < 0.92:
        return {"t": "seqpos", "k": "list", "items": [scalar(rnd), w()], "sz": [None, None], "uniq": False,
                "additional": rnd.choice([None, False, True])}
    return SG.gen_sfield(rnd, 0, classes, max_depth)


def gen_wclass(rnd, name, classes=(), max_depth=2, ext=False):
    wrapper = rnd.random() < 0.2
    n = 1 if wrapper else rnd.randint(1, 3)
    fields = []
    for fname in SG.FIELD_NAMES[:n]:
        f = gen_wfield(rnd, classes, max_depth, ext) if (fname == "a" or rnd.random() < 0.5) else SG.gen_sfield(rnd, 0, classes, 1)
        fields.append({"name": fname, "field": f})
    names = [fd["name"] for fd in fields]
    c = {"name": name, "fields": fields}
    if wrapper:
        c["required"] = list(names)
        c["additional"] = False
        return c
    if rnd.random() < 0.6:
        c["required"] = sorted(rnd.sample(names, rnd.randint(0, len(names))))
    c["additional"] = rnd.choice([False, False, True, None])
    if rnd.random() < 0.3:
        c["ignore_none"] = True
    return c


def build_wworld(rnd, n_classes, max_depth=2, prefix="W"):
    """like sergen.build_world, over gen_wclass (model fragment only)"""
    ctx = SG.SerContext([])
    pools = {}
    i = guard = 0
    while i < n_classes and guard < n_classes * 4:
        guard += 1
        name = "%s%d" % (prefix, i)
        avail = [n for n in ctx.class_names() if ctx.instances.get(n)]
        c = gen_wclass(rnd, name, classes=avail if rnd.random() < 0.6 else (), max_depth=max_depth)
        try:
            ctx.add(c)
        except Exception:  # noqa   declaration rejected by typedpy
            ctx.ns.pop(name, None)
            continue
        insts = []
        for _ in range(8):
            r = SG.gen_instance(rnd, c, ctx)
            if r is not None:
                insts.append(r)
        i += 1
        if insts:
            pools[name] = insts
            ctx.instances[name] = [SG.reify_o(x) for _, x in insts[:4]]
    return ctx, pools


# ------------------------------------------------------------------ values for world X (Python values)

JSONISH = [0, 1, -3, 2.5, "", "a", "abc", True, False, [], [1], ["a", "b"], {}, {"k": 1}, "07:15:45", "12.50"]


def xvalid(rnd, f, ctx, depth=0):
    """a Python value intended to conform to f (validity is decided by the constructor afterwards)"""
    t = f["t"]
    sub = lambda g: xvalid(rnd, g, ctx, depth + 1)
    if t == "ext":
        return copy.deepcopy(rnd.choice(EXT_VALID[f["k"]]))
    if t in ("num", "str", "bool", "none", "enumlit", "enumcls"):
        return G.unreify(G.gen_valid(rnd, f), ctx.classes)
    if t == "any":
        return copy.deepcopy(rnd.choice(JSONISH))
    if t in ("seqeach", "seqany", "set"):
        n = rnd.randint(0, 3)
        items = [sub(f["item"]) if f.get("item") else rnd.choice([1, "a", 2.5]) for _ in range(n)]
        if t == "set":
            return set(items)
        return items if f["k"] == "list" else collections.deque(items)
    if t in ("seqpos", "tuple"):
        if t == "tuple" and len(f["items"]) == 1:
            items = [sub(f["items"][0]) for _ in range(rnd.randint(0, 3))]
        else:
            items = [sub(g) for g in f["items"]]
            if t == "seqpos" and f.get("additional") is not False and rnd.random() < 0.3:
                items.append(rnd.choice([1, "a"]))
        if t == "tuple":
            return tuple(items)
        return items if f["k"] == "list" else collections.deque(items)
    if t == "mapkv":
        return {sub(f["kf"]): sub(f["vf"]) for _ in range(rnd.randint(0, 2))}
    if t == "mapany":
        return {"k": 1}
    if t in ("anyof", "oneof", "allof"):
        return sub(rnd.choice(f["fs"]))
    if t == "not":
        return copy.deepcopy(rnd.choice(JSONISH))
    if t == "ref":
        pool = ctx.pyinstances.get(f["cls"]) or []
        return copy.deepcopy(rnd.choice(pool)) if pool else None
    raise ValueError(f)


def xinstance(rnd, c, ctx, tries=12):
    cls = ctx.classes[c["name"]]
    req = c.get("required")
    for _ in range(tries):
        kw = {}
        for fd in c["fields"]:
            if req is None or fd["name"] in req or rnd.random() < 0.7:
                try:
                    kw[fd["name"]] = xvalid(rnd, fd["field"], ctx)
                except TypeError:      # unhashable key / set element
                    kw = None
                    break
        if kw is None:
            continue
        try:
            x = cls(**kw)
            again = cls(**{k: v for k, v in x.__dict__.items() if k not in S.INTERNAL})
            if again == x:
                return kw, x
        except Exception:  # noqa
            continue
    return None


def build_xworld(rnd, n_classes, max_depth=2, prefix="X"):
    ctx = XContext()
    pools = {}
    i = guard = 0
    while i < n_classes and guard < n_classes * 4:
        guard += 1
        name = "%s%d" % (prefix, i)
        avail = [n for n in ctx.class_names() if ctx.pyinstances.get(n)]
        c = gen_wclass(rnd, name, classes=avail if rnd.random() < 0.5 else (), max_depth=max_depth, ext=True)
        try:
            ctx.add(c)
        except Exception:  # noqa
            ctx.ns.pop(name, None)
            continue
        insts = []
        for _ in range(8):
            r = xinstance(rnd, c, ctx)
            if r is not None:
                insts.append(r)
        i += 1
        if insts:
            pools[name] = insts
            ctx.pyinstances[name] = [x for _, x in insts[:4]]
    return ctx, pools


# ------------------------------------------------------------------ the trial-failure lattice

STR = {"t": "str"}
INT = {"t": "num", "k": "Integer", "s": "Any"}


def _arr(item):
    return {"t": "seqeach", "k": "list", "item": item, "sz": [None, None], "uniq": False}


# alternatives whose trial on some document raises something that is neither TypeError nor ValueError
HARD_MODEL = [
    ("tuple2", {"t": "tuple", "items": [STR, INT], "uniq": False}),
    ("arraypos", {"t": "seqpos", "k": "list", "items": [INT, STR], "sz": [None, None], "uniq": False, "additional": None}),
    ("dequepos", {"t": "seqpos", "k": "deque", "items": [STR, STR], "sz": [None, None], "uniq": False, "additional": None}),
    ("tuple1", {"t": "tuple", "items": [INT], "uniq": False}),
    ("array-of-tuple2", _arr({"t": "tuple", "items": [STR, INT], "uniq": False})),
]
HARD_EXT = [
    ("decimal", {"t": "ext", "k": "Decimal"}),
    ("timestring", {"t": "ext", "k": "TimeString"}),
    ("array-of-decimal", _arr({"t": "ext", "k": "Decimal"})),
]
SOFT = [
    ("str", STR),
    ("array-str", _arr(STR)),
    ("int", INT),
    ("none", {"t": "none"}),
    ("map", {"t": "mapkv", "kf": STR, "vf": INT, "sz": [None, None]}),
    ("any", {"t": "any"}),
]
LATTICE_DOCS = [["a"], [], [1], ["a", 1], [1, "a"], ["a", "b", "c"], [["a"]], [["a", 1]], [[]], "x", 5, None, {}, {"k": 1}, True,
                [-1, -2], [1, 2]]
# alternatives whose pre-validation during deserialization is weaker than their validation (sign classes are
# checked by __set__ only, sizes by the collection's __set__), next to an alternative of another Python type
POSINT = {"t": "num", "k": "Integer", "s": "Positive"}
WEAK_PAIRS = [
    ("tuple-int2", {"t": "tuple", "items": [INT, INT], "uniq": False}, "array-positive", _arr(POSINT)),
    ("tuple-int2", {"t": "tuple", "items": [INT, INT], "uniq": False}, "array-max1",
     {"t": "seqeach", "k": "list", "item": INT, "sz": [None, 1], "uniq": False}),
]
LATTICE_DOCS_EXT = ["n/a", "12.5", "", 5, 2.5, True, "07:15:45", None, [], ["n/a"], ["a"], ["1"], {}, {"k": 1}]
POSITIONS = ["direct", "array-item", "map-value", "tuple-item", "compact", "nested-class"]


def lattice_wrappers(hard, softs=SOFT):
    out = []
    for kind in WRAPPERS:
        for hn, h in hard:
            for sn, s in softs:
                for order in ("hard-first", "hard-last"):
                    fs = [h, s] if order == "hard-first" else [s, h]
                    out.append(("%s[%s]" % (kind, ",".join([hn, sn] if order == "hard-first" else [sn, hn])),
                                {"t": kind, "fs": copy.deepcopy(fs)}))
            # a single hard alternative (NotField / AllOf of one option are common spellings)
            out.append(("%s[%s]" % (kind, hn), {"t": kind, "fs": [copy.deepcopy(h)]}))
        if hard is HARD_MODEL:
            for an, a, bn, b in WEAK_PAIRS:
                out.append(("%s[%s,%s]" % (kind, an, bn), {"t": kind, "fs": [copy.deepcopy(a), copy.deepcopy(b)]}))
                out.append(("%s[%s,%s]" % (kind, bn, an), {"t": kind, "fs": [copy.deepcopy(b), copy.deepcopy(a)]}))
    return out


def place(pos, w, name, inner_name):
    """class ASTs putting wrapper declaration w at position pos; returns ([class ASTs], doc builder)"""
    req = {"required": ["f"], "additional": False}
    if pos == "direct":
        return [dict({"name": name, "fields": [{"name": "f", "field": w}]}, **req)], (lambda d: {"f": d}), False
    if pos == "array-item":
        return [dict({"name": name, "fields": [{"name": "f", "field": _arr(w)}]}, **req)], (lambda d: {"f": [d, d]}), False
    if pos == "map-value":
        f = {"t": "mapkv", "kf": STR, "vf": w, "sz": [None, None]}
        return [dict({"name": name, "fields": [{"name": "f", "field": f}]}, **req)], (lambda d: {"f": {"k": d}}), False
    if pos == "tuple-item":
        f = {"t": "tuple", "items": [w, INT], "uniq": False}
        return [dict({"name": name, "fields": [{"name": "f", "field": f}]}, **req)], (lambda d: {"f": [d, 1]}), False
    if pos == "compact":
        return [dict({"name": name, "fields": [{"name": "f", "field": w}]}, **req)], (lambda d: d), True
    if pos == "nested-class":
        inner = dict({"name": inner_name, "fields": [{"name": "f", "field": w}]}, **req)
        outer = dict({"name": name, "fields": [{"name": "f", "field": {"t": "ref", "cls": inner_name}}]}, **req)
        return [inner, outer], (lambda d: {"f": {"f": d}}), False
    raise ValueError(pos)


# ------------------------------------------------------------------ aligned positions of a document

def sites(f, j, ctx, path=(), depth=0):
    """every (path, declaration view, sub-document) at which a single-point corruption can be applied"""
    yield (path, f, j)
    if depth > 6:
        return
    t = f["t"]
    rec = lambda g, x, p: sites(g, x, ctx, path + (p,), depth + 1)
    if t in ("seqeach", "set") and type(j) is list and f.get("item"):
        for i, x in enumerate(j):
            yield from rec(f["item"], x, i)
    elif t in ("seqpos", "tuple") and type(j) is list:
        items = f["items"]
        for i, x in enumerate(j):
            if t == "tuple" and len(items) == 1:
                yield from rec(items[0], x, i)
            elif i < len(items):
                yield from rec(items[i], x, i)
    elif t == "mapkv" and type(j) is dict:
        for k, x in j.items():
            yield from rec(f["vf"], x, k)
    elif t in WRAPPERS:
        for g in f["fs"]:            # the same position under the view of each alternative, then below it
            yield from sites(g, j, ctx, path, depth + 1)
    elif t == "ref" and type(j) is dict:
        try:
            fields = {fd["name"]: fd["field"] for fd in ctx.all_fields(f["cls"])}
        except KeyError:
            return
        for k, x in j.items():
            if k in fields:
                yield from rec(fields[k], x, k)
    elif t == "ref" and j is not None:
        # the compact form of a single-field wrapper class: the document stands where the field's value is expected
        try:
            fds = ctx.all_fields(f["cls"])
        except KeyError:
            return
        if len(fds) == 1:
            yield from sites(fds[0]["field"], j, ctx, path, depth + 1)


def refs_in(f):
    """names of the classes declaration f refers to"""
    out = []
    if f["t"] == "ref":
        out.append(f["cls"])
    for key in ("item", "kf", "vf"):
        if isinstance(f.get(key), dict):
            out += refs_in(f[key])
    for key in ("items", "fs"):
        for g in f.get(key) or []:
            out += refs_in(g)
    return out


def put_at(doc, path, v):
    d = copy.deepcopy(doc)
    if not path:
        return copy.deepcopy(v)
    cur = d
    for p in path[:-1]:
        cur = cur[p]
    cur[path[-1]] = copy.deepcopy(v)
    return d


# ------------------------------------------------------------------ repaired findings: exceptions that used to escape

def known_escapes(f, j, ctx, ign=False, depth=0, through=False):
    """Names of the non-TypeError/ValueError exceptions that three REPAIRED defects let escape when document j is
    deserialized for declaration f: the causes below, reached without crossing a multi-field wrapper (a
    wrapper counts any failure of an alternative as "does not match").  Computed from the shape of the document,
    not by running typedpy: it says where those exceptions would come from if a defect returned (the key of the
    VIOLATION), and which documents exercise the trial of such an alternative inside a wrapper.
      IndexError           value[i] on a document shorter than the positional items (F9)
      InvalidOperation     Decimal(<non-numeric string>) in DecimalNumber.deserialize
      NotImplementedError  a TypedField over str (TimeString) offered a scalar that is not a string"""
    out = set()
    if depth > 8 or (j is None and (ign or f["t"] == "none")):
        return out
    t = f["t"]
    rec = lambda g, x: known_escapes(g, x, ctx, False, depth + 1, through)
    if t in WRAPPERS:
        if through:      # what the TRIALS of the alternatives raise (the wrapper itself catches it)
            for g in f["fs"]:
                out |= rec(g, j)
    elif t == "ext":
        if f["k"].startswith("Decimal") and isinstance(j, str):
            try:
                decimal.Decimal(j)
            except decimal.InvalidOperation:
                out.add("InvalidOperation")
        if f["k"] == "TimeString" and not isinstance(j, (str, list, dict)):
            out.add("NotImplementedError")
    elif t in ("seqpos", "tuple") and isinstance(j, (list, tuple, set)):
        j = list(j)
        if len(j) < len(f["items"]):
            out.add("IndexError")
        for g, x in zip(f["items"], j):
            out |= rec(g, x)
    elif t in ("seqeach", "set") and isinstance(j, (list, tuple, set)) and f.get("item"):
        for x in j:
            out |= rec(f["item"], x)
    elif t == "mapkv" and isinstance(j, dict):
        for k, x in j.items():
            out |= rec(f["kf"], k) | rec(f["vf"], x)
    elif t == "ref":
        try:
            c = ctx.ast(f["cls"])
        except KeyError:
            return out
        out |= doc_escapes(c, j, ctx, depth + 1, through)
    return out


def doc_escapes(c, d, ctx, depth=0, through_wrappers=False):
    fields = {fd["name"]: fd["field"] for fd in ctx.all_fields(c["name"])}
    ign = ctx.resolved(c["name"])["ignore_none"]
    out = set()
    if isinstance(d, dict):
        for k, x in d.items():
            if k in fields and x is not None:
                out |= known_escapes(fields[k], x, ctx, ign, depth + 1, through_wrappers)
    elif len(fields) == 1:
        (f,) = fields.values()
        out |= known_escapes(f, d, ctx, ign, depth + 1, through_wrappers)
    return out


def posfree(f):
    """no positional container reachable without crossing a multi-field wrapper (statistics only: until F9 was
    repaired this was a hypothesis of theorem C06_error_class)"""
    t = f["t"]
    if t in ("seqpos", "tuple"):
        return False
    if t in ("seqeach", "set"):
        return f.get("item") is None or posfree(f["item"])
    if t == "mapkv":
        return posfree(f["kf"]) and posfree(f["vf"])
    return True


ESCAPE_SHAPE = {
    "IndexError": "document-shorter-than-positional-items",
    "InvalidOperation": "decimal-non-numeric-string-outside-wrapper",
    "NotImplementedError": "typedfield-over-str-non-string-scalar-outside-wrapper",
}


# ------------------------------------------------------------------ the nesting lattice (keys that are not fields, at every level)

def _map(v):
    return {"t": "mapkv", "kf": STR, "vf": v, "sz": [None, None]}


def nest_positions(x):
    """(name, declaration holding a reference x to a nested structure, how a list of JSON objects of the nested
    class is laid out as the field's document)"""
    ref = {"t": "ref", "cls": x}
    return [
        ("direct", ref, lambda o: o[0]),
        ("map-value", _map(ref), lambda o: {"k%d" % i: v for i, v in enumerate(o)}),
        ("map-of-map", _map(_map(ref)), lambda o: {"m": {"k%d" % i: v for i, v in enumerate(o)}}),
        ("array", _arr(ref), lambda o: list(o)),
        ("deque", {"t": "seqeach", "k": "deque", "item": ref, "sz": [None, None], "uniq": False}, lambda o: list(o)),
        ("set", {"t": "set", "imm": False, "item": ref, "sz": [None, None]}, lambda o: list(o)),
        # (Tuple takes Field items only: the class reference goes in as a one-alternative AnyOf)
        ("tuple", {"t": "tuple", "items": [{"t": "anyof", "fs": [ref]}, INT], "uniq": False}, lambda o: [o[0], 1]),
        ("array-positional", {"t": "seqpos", "k": "list", "items": [ref, INT], "sz": [None, None], "uniq": False,
                              "additional": None}, lambda o: [o[0], 1]),
        ("anyof", {"t": "anyof", "fs": [ref, STR]}, lambda o: o[0]),
        ("oneof", {"t": "oneof", "fs": [INT, ref]}, lambda o: o[0]),
        ("optional", {"t": "anyof", "fs": [ref, {"t": "none"}]}, lambda o: o[0]),
        ("array-of-map", _arr(_map(ref)), lambda o: [{"k%d" % i: v for i, v in enumerate(o)}]),
        ("map-of-array", _map(_arr(ref)), lambda o: {"k": list(o)}),
        ("map-of-anyof", _map({"t": "anyof", "fs": [ref, INT]}), lambda o: dict({"k%d" % i: v for i, v in enumerate(o)}, n=5)),
        ("map-of-tuple", _map({"t": "tuple", "items": [{"t": "anyof", "fs": [ref]}, INT], "uniq": False}),
         lambda o: {"k": [o[0], 1]}),
    ]


# Names of document keys that are not fields.  A JSON key is any string: names with a leading underscore, dunder-shaped
# names, camel/snake case, non-ASCII and a name made of a field's name are keys like any other (the constructor keeps
# them all on a class that allows additional properties).  EXCLUDED on purpose: names of a Structure's own bookkeeping
# attributes (_instantiated, _none_fields, _skip_validation, _trust_supplied_values, _required, _additional_properties,
# _ignore_none, ...) and of object attributes (__class__, __dict__): the constructor itself refuses or reinterprets those.
EXTRA_NAMES = ["zz", "_id", "_x1", "__v__", "__dunder__", "camelCase", "snake_case", "\u65e5\u672c", "_a"]


def rename_extras(o, i):
    """JSON object o with its non-field keys zz / yy renamed to the i-th and (i+4)-th name of the pool"""
    n = len(EXTRA_NAMES)
    ren = {"zz": EXTRA_NAMES[i % n], "yy": EXTRA_NAMES[(i + 4) % n]}
    return {ren.get(k, k): v for k, v in o.items()}


# JSON objects of the nested class: plain, with a key that is not a field, with an optional field and such a key
NEST_INNER_DOCS = [
    ("no-extra", [{"a": 1}, {"a": 2, "b": "x"}]),
    ("extra-in-first", [{"a": 1, "zz": 2}, {"a": 2}]),
    ("extra-in-all", [{"a": 1, "b": "x", "zz": [1]}, {"a": 2, "yy": None, "zz": "q"}]),
    ("extra-and-invalid", [{"a": "not a number", "zz": 1}, {"a": 2}]),
]


def nest_classes(prefix, inner_additional, top_additional, pos_name, decl_of):
    """class ASTs: the nested class N (fields a: Integer required, b: String), a middle class M that holds N directly
    and below a Map, and the top class with field f at the given position, a sibling Map of integers and a sibling
    direct reference"""
    n = prefix + "N"
    inner = {"name": n, "fields": [{"name": "a", "field": INT}, {"name": "b", "field": STR}],
             "required": ["a"], "additional": inner_additional}
    top = {"name": prefix + "T", "fields": [{"name": "f", "field": decl_of(n)},
                                            {"name": "s", "field": _map(INT)},
                                            {"name": "g", "field": {"t": "ref", "cls": n}}],
           "required": ["f"], "additional": top_additional}
    return [inner, top]
