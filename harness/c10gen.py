"""C10 helpers: class ASTs in the vocabulary of coq/theories/Ser/Trusted.v (leaves, Array/Set, class
references, AnyOf, mappers), their Python source, Gallina emission, document / instance generation,
oracle tables and the catalogue of declaration features that are known to break the shortcuts.

tfield AST:
  {"t":"prim","f":<fieldgen field>}            {"t":"enum","cls":"Color"|"Size","byv":bool}
  {"t":"enumlit","values":[reified]}           {"t":"ser","kind":"date"|"datetime"|"decimal"}
  {"t":"array","item":tf} {"t":"set","item":tf} {"t":"ref","cls":name}
  {"t":"opt","nf":bool,"f":tf}                 {"t":"union","ls":[leaf tf]}
  {"t":"other","kind":<key of OTHER>}
class AST: {"name","fields":[{"name","ty","default":reified|None}],"required":None|[..],"additional":None|bool,
            "ignore_none":bool,"mapper":None|"camel"|"upper"|"list"|{"dict":[[k,["str",s]|["fun"]]]},"fast":bool}
"""
import copy
import datetime
import decimal

from harness import coqemit as E
from harness import fieldgen as G

IMPORTS = (G.IMPORTS +
           "from typedpy import DateField, DateTime, DecimalNumber, mappers, FastSerializable, FunctionCall\n"
           "from typedpy.structures import NoneField\n")

SER = {  # kind -> (id, source)
    "date": (1, "DateField()"),
    "datetime": (2, "DateTime()"),
    "decimal": (3, "DecimalNumber()"),
}
OTHER = {  # kind -> (id, source, is_oneof)
    "map_str_int": (10, "Map[String, Integer]", False),
    "map_str_date": (11, "Map[String, DateField]", False),
    "tuple": (12, "Tuple[Integer, String]", False),
    "anything": (13, "Anything()", False),
    "array_noitems": (14, "Array()", False),
    "oneof": (15, "OneOf[Integer, String]", True),
    "array_array": (16, "Array[Array[Integer]]", False),
    "array_pos": (17, "Array(items=[Integer(), String()])", False),
}
OTHER_DOCS = {
    "map_str_int": [{"a": 1}, {}, {"x": 2, "y": 3}],
    "map_str_date": [{"a": "2021-03-04"}, {}],
    "tuple": [[1, "x"], [2, ""]],
    "anything": [1, "s", [1, 2], {"k": 1}],
    "array_noitems": [[1, "a"], []],
    "oneof": [1, "s"],
    "array_array": [[[1], [2, 3]], []],
    "array_pos": [[1, "a"], [2, "b", 3]],
}
ENUM_MEMBERS = {"Color": [("RED", ("int", 1)), ("GREEN", ("int", 2)), ("BLUE", ("str", "b"))],
                "Size": [("S", ("str", "small")), ("M", ("str", "medium")), ("L", ("str", "large"))]}


# ------------------------------------------------------------------ keys

def camel(k):
    words = k.split("_")
    return words[0] + "".join(w.title() for w in words[1:])


def own_key(mapper, k):
    if mapper == "camel":
        return camel(k)
    if mapper in ("upper", "list"):      # "list" is the chain [{}, TO_LOWERCASE]
        return k.upper()
    if isinstance(mapper, dict):
        for kk, v in mapper["dict"]:
            if kk == k and v[0] == "str":
                return v[1]
    return k


def special(mapper):
    return [mapper] if mapper in ("camel", "upper") else []


def reg_key(inh, c, k):
    s = own_key(c.get("mapper"), k)
    for m in inh:
        s = own_key(m, s)
    return s


# ------------------------------------------------------------------ source

def tf_src(tf, suffix=""):
    t = tf["t"]
    if t == "prim":
        return G.field_src(tf["f"])
    if t == "enum":
        return "Enum(values=%s%s)" % (tf["cls"], ", serialization_by_value=True" if tf["byv"] else "")
    if t == "enumlit":
        return "Enum(values=[%s])" % ", ".join(G.py_src(v) for v in tf["values"])
    if t == "ser":
        return SER[tf["kind"]][1]
    if t == "array":
        return "Array(items=%s)" % tf_src(tf["item"], suffix)
    if t == "set":
        return "Set(items=%s)" % tf_src(tf["item"], suffix)
    if t == "ref":
        return tf["cls"] + suffix
    if t == "opt":
        inner = tf_src(tf["f"], suffix)
        return "AnyOf[NoneField, %s]" % inner if tf["nf"] else "AnyOf[%s, NoneField]" % inner
    if t == "union":
        return "AnyOf[%s]" % ", ".join(tf_src(l, suffix) for l in tf["ls"])
    if t == "other":
        return OTHER[tf["kind"]][1]
    raise ValueError(tf)


def mapper_src(m):
    if m is None:
        return None
    if m == "camel":
        return "mappers.TO_CAMELCASE"
    if m == "upper":
        return "mappers.TO_LOWERCASE"
    if m == "list":
        return "[{}, mappers.TO_LOWERCASE]"
    items = []
    for k, v in m["dict"]:
        if v[0] == "str":
            items.append("%r: %r" % (k, v[1]))
        else:
            items.append("%r: FunctionCall(func=lambda x: x)" % k)
    return "{%s}" % ", ".join(items)


def class_src(c, suffix="", fast=False):
    bases = "Structure" + (", FastSerializable" if fast else "")
    k = c.get("split")
    if k:
        # the same declaration written as a base class holding the first k fields and a subclass holding the
        # rest (and the class attributes): typedpy sees the same fields, required list and mapper
        base = {"name": c["name"] + "Base", "fields": c["fields"][:k]}
        names = [fd["name"] for fd in base["fields"]]
        if c.get("required") is not None:
            base["required"] = [r for r in c["required"] if r in names]
        derived = dict(c)
        derived["split"] = None
        derived["fields"] = c["fields"][k:]
        if c.get("required") is not None:
            derived["required"] = [r for r in c["required"] if r not in names]
        return class_src(base, suffix, fast) + "\n" + class_src(derived, suffix, fast).replace(
            "(%s):" % bases, "(%sBase%s):" % (c["name"], suffix), 1)
    lines = ["class %s%s(%s):" % (c["name"], suffix, bases)]
    for fd in c["fields"]:
        src = tf_src(fd["ty"], suffix)
        if fd.get("default") is not None:
            assert fd["ty"]["t"] == "prim"
            src = src[:-1] + (", " if not src.endswith("(") else "") + "default=%s)" % G.py_src(fd["default"])
        lines.append("    %s = %s" % (fd["name"], src))
    if c.get("required") is not None:
        lines.append("    _required = %r" % list(c["required"]))
    if c.get("additional") is not None:
        lines.append("    _additional_properties = %r" % c["additional"])
    if c.get("ignore_none"):
        lines.append("    _ignore_none = True")
    if c.get("mapper") is not None:
        lines.append("    _serialization_mapper = %s" % mapper_src(c["mapper"]))
    return "\n".join(lines) + "\n"


def env_src(env, suffix="", fast_names=()):
    """Source of all classes, referenced ones first (env is ordered leaf classes first)."""
    return IMPORTS + "\n".join(class_src(c, suffix, fast=(c["name"] in fast_names)) for c in env)


def realize(env, suffix="", fast_names=()):
    ns = {}
    exec(env_src(env, suffix, fast_names), ns)
    return ns


# ------------------------------------------------------------------ Gallina

def emit_leaf(tf):
    t = tf["t"]
    if t == "prim":
        return "(LPrim %s)" % G.emit_field(tf["f"])
    if t == "enum":
        ms = E.lst(["(%s, %s)" % (E.pstr(n), E.pval(v)) for n, v in ENUM_MEMBERS[tf["cls"]]])
        return "(LEnum %s %s %s)" % (E.pstr(tf["cls"]), ms, E.blit(tf["byv"]))
    if t == "enumlit":
        return "(LEnumLit %s)" % E.lst([E.pval(v) for v in tf["values"]])
    if t == "ser":
        return "(LSer %s %s)" % (E.nlit(SER[tf["kind"]][0]), E.blit(tf["kind"] == "decimal"))
    raise ValueError(tf)


LEAVES = ("prim", "enum", "enumlit", "ser")


def emit_tf(tf):
    t = tf["t"]
    if t in LEAVES:
        return "(TLeaf %s)" % emit_leaf(tf)
    if t == "array":
        return "(TArray %s)" % emit_tf(tf["item"])
    if t == "set":
        return "(TSet %s)" % emit_tf(tf["item"])
    if t == "ref":
        return "(TRef %s)" % E.pstr(tf["cls"])
    if t == "opt":
        return "(TOpt %s %s)" % (E.blit(tf["nf"]), emit_tf(tf["f"]))
    if t == "union":
        return "(TUnion %s)" % E.lst([emit_leaf(l) for l in tf["ls"]])
    if t == "other":
        o = OTHER[tf["kind"]]
        return "(TOther %s %s)" % (E.nlit(o[0]), E.blit(o[2]))
    raise ValueError(tf)


def emit_mapper(m):
    if m is None:
        return "MapNone"
    if m == "camel":
        return "MapCamel"
    if m == "upper":
        return "MapUpper"
    if m == "list":
        return "MapList"
    return "(MapDict %s)" % E.lst(["(%s, %s)" % (E.pstr(k), "(MStr %s)" % E.pstr(v[1]) if v[0] == "str" else "MFun")
                                   for k, v in m["dict"]])


def emit_class(c):
    names = [fd["name"] for fd in c["fields"]]
    req = names if c.get("required") is None else [r for r in c["required"]]
    # typedpy keeps a field that has a default out of the class's _required list
    req = [r for r in req if not any(fd["name"] == r and fd.get("default") is not None for fd in c["fields"])]
    fds = ["{| f_name := %s; f_ty := %s; f_default := %s |}" % (
        E.pstr(fd["name"]), emit_tf(fd["ty"]), E.opt(fd.get("default"), E.pval)) for fd in c["fields"]]
    return ("{| t_name := %s; t_fields := %s; t_required := %s; t_additional := %s; t_ignore_none := %s; "
            "t_mapper := %s; t_fast := %s |}") % (
        E.pstr(c["name"]), E.lst(fds), E.lst([E.pstr(r) for r in req]),
        E.blit(c.get("additional") is not False), E.blit(bool(c.get("ignore_none"))),
        emit_mapper(c.get("mapper")), E.blit(bool(c.get("fast"))))


def emit_env(env):
    return E.lst(["\n   " + emit_class(c) for c in env])


def emit_otable(tbl):
    """{id: [(reified value, outcome)]} -> otable"""
    return E.lst(["(%s, %s)" % (E.nlit(i), E.lst(["(%s, %s)" % (E.pval(v), E.outcome(o)) for v, o in rows]))
                  for i, rows in sorted(tbl.items())])


# ------------------------------------------------------------------ generation of classes

FNAMES = ["a", "my_b", "c_1x", "the_long_name", "e"]
INTF = {"t": "num", "k": "Integer", "s": "Any"}


def gen_prim(rnd):
    r = rnd.random()
    if r < 0.30:
        f = dict(INTF)
        if rnd.random() < 0.3:
            f["min"] = ("int", rnd.choice([0, 1, -5]))
        if rnd.random() < 0.2:
            f["s"] = rnd.choice(["Positive", "NonNegative"])
        return f
    if r < 0.50:
        return {"t": "num", "k": "Float", "s": "Any"}
    if r < 0.58:
        return {"t": "num", "k": "Number", "s": rnd.choice(["Any", "Positive"])}
    if r < 0.82:
        f = {"t": "str"}
        if rnd.random() < 0.3:
            f["max"] = rnd.choice([5, 11])
        return f
    if r < 0.96:
        return {"t": "bool"}
    return {"t": "none"}


def gen_leaf(rnd, prim_bias=0.55):
    r = rnd.random()
    if r < prim_bias:
        return {"t": "prim", "f": gen_prim(rnd)}
    r = rnd.random()
    if r < 0.35:
        return {"t": "enum", "cls": rnd.choice(["Color", "Size"]), "byv": rnd.random() < 0.3}
    if r < 0.50:
        return {"t": "enumlit", "values": rnd.choice([[("str", "x"), ("str", "yy"), ("int", 3)], [("int", 1), ("int", 2)]])}
    return {"t": "ser", "kind": rnd.choice(["date", "date", "datetime", "decimal"])}


def gen_tf(rnd, inner_names, depth=0):
    r = rnd.random()
    if depth > 0:
        if r < 0.6 or not inner_names:
            return gen_leaf(rnd)
        if r < 0.9:
            return {"t": "ref", "cls": rnd.choice(inner_names)}
        return {"t": "other", "kind": rnd.choice(sorted(OTHER))}
    if r < 0.42:
        return gen_leaf(rnd)
    if r < 0.56:
        return {"t": "array", "item": gen_tf(rnd, inner_names, 1)}
    if r < 0.66:
        return {"t": "set", "item": gen_tf(rnd, inner_names, 1)}
    if r < 0.76 and inner_names:
        return {"t": "ref", "cls": rnd.choice(inner_names)}
    if r < 0.88:
        f = gen_tf(rnd, inner_names, 1) if rnd.random() < 0.7 else {"t": rnd.choice(["array", "set"]), "item": gen_tf(rnd, inner_names, 1)}
        if f["t"] == "prim" and f["f"]["t"] == "none":
            f = {"t": "prim", "f": dict(INTF)}
        return {"t": "opt", "nf": rnd.random() < 0.25, "f": f}
    if r < 0.94:
        n = rnd.randint(2, 3)
        ls = []
        for _ in range(n):
            l = gen_leaf(rnd, 0.75)
            if l["t"] == "ser" and any(x["t"] == "ser" for x in ls):    # date/datetime options convert into each other
                l = {"t": "prim", "f": {"t": "str"}}
            ls.append(l)
        if rnd.random() < 0.5:
            ls.append({"t": "prim", "f": {"t": "none"}})
        if len(ls) == 2 and any(l["t"] == "prim" and l["f"]["t"] == "none" for l in ls):
            ls.append({"t": "prim", "f": {"t": "str"}})
        return {"t": "union", "ls": ls}
    return {"t": "other", "kind": rnd.choice(sorted(OTHER))}


def gen_mapper(rnd, names, p=0.45):
    if rnd.random() > p:
        return None
    r = rnd.random()
    if r < 0.33:
        return "camel"
    if r < 0.55:
        return "upper"
    if r < 0.90:
        ks = rnd.sample(names, rnd.randint(1, min(2, len(names))))
        out = []
        for i, k in enumerate(ks):
            target = rnd.choice(["k%d" % i, "renamed_%d" % i, "Z%d" % i, "deep.path%d" % i if rnd.random() < 0.12 else "q%d" % i])
            out.append([k, ["str", target]])
        rest = [x for x in names if x not in ks]
        if rest and rnd.random() < 0.15:
            out.append([rest[0], ["fun"]])
        return {"dict": out}
    return "list"


def gen_class(rnd, name, inner_names=(), simple=False, fast=False, p_mapper=0.45):
    n = rnd.randint(1, 4)
    fields = []
    for fname in rnd.sample(FNAMES, n):
        ty = gen_leaf(rnd, 0.7) if simple else gen_tf(rnd, list(inner_names))
        fd = {"name": fname, "ty": ty, "default": None}
        if ty["t"] == "prim" and ty["f"]["t"] in ("num", "str") and rnd.random() < 0.12:
            try:
                fd["default"] = G.gen_valid(rnd, ty["f"])
            except Exception:  # noqa
                pass
        fields.append(fd)
    names = [fd["name"] for fd in fields]
    c = {"name": name, "fields": fields, "fast": fast}
    r = rnd.random()
    if r < 0.65:
        c["required"] = sorted(rnd.sample(names, rnd.randint(0, len(names))))
    else:
        c["required"] = None
    c["additional"] = rnd.choice([None, None, True, False])
    c["ignore_none"] = rnd.random() < 0.25
    c["mapper"] = gen_mapper(rnd, names, p_mapper)
    return c


# ------------------------------------------------------------------ documents (JSON-like Python values)

DATES = ["2020-01-02", "1999-12-31", "2021-03-04"]
DATETIMES = ["01/31/20 07:15:45", "12/01/21 23:00:01"]


def prim_doc(rnd, f):
    if f["t"] == "bool":
        return rnd.choice([True, False, True, False, "True", "False"]) if rnd.random() < 0.25 else rnd.choice([True, False])
    if f["t"] == "none":
        return None
    v = G.unreify(G.gen_valid(rnd, f))
    if f["t"] == "num" and f["k"] == "Float" and rnd.random() < 0.3 and float(v).is_integer() and abs(v) < 2 ** 40:
        v = int(v)
    return v


def leaf_doc(rnd, tf):
    t = tf["t"]
    if t == "prim":
        return prim_doc(rnd, tf["f"])
    if t == "enum":
        n, v = rnd.choice(ENUM_MEMBERS[tf["cls"]])
        return G.unreify(v) if tf["byv"] else n
    if t == "enumlit":
        return G.unreify(rnd.choice(tf["values"]))
    if t == "ser":
        if tf["kind"] == "date":
            return rnd.choice(DATES)
        if tf["kind"] == "datetime":
            return rnd.choice(DATETIMES)
        return rnd.choice([1.5, 2, "2.25", 0])
    raise ValueError(tf)


def tf_doc(rnd, tf, envd, inh, ku_extras):
    t = tf["t"]
    if t in LEAVES:
        return leaf_doc(rnd, tf)
    if t in ("array", "set"):
        n = rnd.choice([0, 1, 2, 2, 3])
        items = [tf_doc(rnd, tf["item"], envd, inh, ku_extras) for _ in range(n)]
        if t == "set" and items and rnd.random() < 0.3:
            items.append(copy.deepcopy(items[0]))
        return items
    if t == "ref":
        return class_doc(rnd, envd[tf["cls"]], envd, inh, ku_extras)
    if t == "opt":
        return tf_doc(rnd, tf["f"], envd, [], ku_extras)
    if t == "union":
        opts = [l for l in tf["ls"] if not (l["t"] == "prim" and l["f"]["t"] == "none")]
        return leaf_doc(rnd, rnd.choice(opts))
    if t == "other":
        return copy.deepcopy(rnd.choice(OTHER_DOCS[tf["kind"]]))
    raise ValueError(tf)


def class_doc(rnd, c, envd, inh, ku_extras):
    """A document the regular path is expected to accept (valid by construction)."""
    doc = {}
    req = [fd["name"] for fd in c["fields"]] if c.get("required") is None else c["required"]
    child_inh = special(c.get("mapper")) + list(inh)
    items = list(c["fields"])
    rnd.shuffle(items)
    for fd in items:
        k = fd["name"]
        if k not in req and rnd.random() < 0.3:
            if rnd.random() < 0.25:
                doc[reg_key(inh, c, k)] = None
            continue
        v = tf_doc(rnd, fd["ty"], envd, child_inh, ku_extras)
        if v is None and not (fd["ty"]["t"] == "prim" and fd["ty"]["f"]["t"] == "none"):
            continue
        key = reg_key(inh, c, k)
        r = rnd.random()
        m = c.get("mapper")
        if isinstance(m, dict) and any(kk == k and mv[0] == "fun" for kk, mv in m["dict"]):
            r = 1.0       # a FunctionCall-mapped field has no fall-back to its own name (function mappers are
            #               outside the model; only the key the mappers produce is used for such a field)
        if "." in key:
            # dotted path of the mapper: nest the value
            parts = key.split(".")
            d = doc
            for p in parts[:-1]:
                d = d.setdefault(p, {})
            d[parts[-1]] = v
        elif r < 0.06 and key != k:
            doc[k] = v                      # the regular path falls back to the field's own name
        elif r < 0.09 and key != k:
            doc[key] = v
            doc[k] = copy.deepcopy(tf_doc(rnd, fd["ty"], envd, child_inh, ku_extras))
        else:
            doc[key] = v
    if ku_extras and rnd.random() < 0.25:
        doc["zz_extra"] = rnd.choice([1, "s", [1]])
    return doc


def corrupt_doc(rnd, doc):
    """One-point corruption: a value replaced by one of another type, or a key removed."""
    d = copy.deepcopy(doc)
    keys = list(d.keys())
    if not keys:
        return {"zz": 1}
    k = rnd.choice(keys)
    r = rnd.random()
    if r < 0.3:
        del d[k]
    elif isinstance(d[k], dict) and d[k] and r < 0.7:
        d[k] = corrupt_doc(rnd, d[k])
    else:
        d[k] = rnd.choice([[], "zzz", 12345, {"q": 1}, [None], 1.5, True])
    return d


def subvalues(v, acc):
    acc.append(v)
    if isinstance(v, dict):
        for x in v.values():
            subvalues(x, acc)
    elif isinstance(v, (list, tuple, set, frozenset)):
        for x in v:
            subvalues(x, acc)
    elif hasattr(v, "__dict__") and hasattr(type(v), "get_all_fields_by_name"):
        for k, x in v.__dict__.items():
            if not k.startswith("_"):
                subvalues(x, acc)
    return acc


def kinds_in(env):
    sers, others = set(), set()

    def go(tf):
        t = tf["t"]
        if t == "ser":
            sers.add(tf["kind"])
        elif t == "other":
            others.add(tf["kind"])
        elif t in ("array", "set"):
            go(tf["item"])
        elif t == "opt":
            go(tf["f"])
        elif t == "union":
            for l in tf["ls"]:
                go(l)
    for c in env:
        for fd in c["fields"]:
            go(fd["ty"])
    return sers, others
